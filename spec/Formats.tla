------------------------------ MODULE Formats ------------------------------
(***************************************************************************)
(* Text formats as line/field machines: the load-file reader's line         *)
(* accounting (C10), the pMARS listing conventions and their reader (C16),  *)
(* and the canonical load-file layout (C09).  A line is a sequence of field *)
(* tokens (strings and integers) produced by a generic tokenizer.           *)
(***************************************************************************)
EXTENDS Asm
\* ---------------------------------------------------------------- C10
\* the reader as a line machine over the generic line structure: effective lines before the end marker
RECURSIVE CountLines(_, _, _)
CountLines(lines, k, acc) ==      \* acc = [ins, dir]
  IF k > Len(lines) THEN acc
  ELSE LET f == lines[k].f IN
       IF f = << >> /\ lines[k].comma = 0 THEN CountLines(lines, k + 1, acc)     \* blank or comment: ReadBlank / ReadComment
       ELSE IF f = << >> THEN CountLines(lines, k + 1, [acc EXCEPT !.ins = @ + 1]) \* nothing but commas: not blank, not a comment - the read must fail
       ELSE IF f[1] = "end" THEN [acc EXCEPT !.dir = @ + 1]                    \* ReadEnd: the end marker
       ELSE IF f[1] = "org" THEN CountLines(lines, k + 1, [acc EXCEPT !.dir = @ + 1])   \* ReadOrg
       ELSE CountLines(lines, k + 1, [acc EXCEPT !.ins = @ + 1])               \* ReadInstr (or the read must fail)
\* ---------------------------------------------------------------- C16
\* pMARS listing conventions: '94: "ORG START" first, OP MOD mode num mode num; '88: no modifiers, "END START" last;
\* the entry point carries the label START; numbers are signed.
LineIns(f, legacy) ==          \* f without a leading START
  IF Len(f) # (IF legacy THEN 5 ELSE 6) THEN [ok |-> FALSE, op |-> "?", mod |-> "", am |-> "?", a |-> 0, bm |-> "?", b |-> 0]
  ELSE IF legacy THEN [ok |-> TRUE, op |-> f[1], mod |-> "", am |-> f[2], a |-> f[3], bm |-> f[4], b |-> f[5]]
  ELSE [ok |-> TRUE, op |-> f[1], mod |-> f[2], am |-> f[3], a |-> f[4], bm |-> f[5], b |-> f[6]]
ReadListing(lines, legacy, M) ==
  LET n == Len(lines)
      body == IF legacy THEN SubSeq(lines, 1, n - 1) ELSE SubSeq(lines, 2, n)
      dirOK == n >= 1 /\ (IF legacy THEN lines[n] = <<"END", "START">> ELSE lines[1] = <<"ORG", "START">>)
      strip(f) == IF f # << >> /\ f[1] = "START" THEN Tail(f) ELSE f
      starts == {k \in 1..Len(body) : body[k] # << >> /\ body[k][1] = "START"}
      rd == [k \in 1..Len(body) |-> LineIns(strip(body[k]), legacy)]
      ok == dirOK /\ Cardinality(starts) = 1 /\ \A k \in 1..Len(body) : Len(strip(body[k])) = (IF legacy THEN 5 ELSE 6)
  IN [ok |-> ok,
      code |-> [k \in 1..Len(body) |-> [op |-> rd[k].op, am |-> rd[k].am, bm |-> rd[k].bm,
                                        mod |-> IF legacy THEN Default88(rd[k].op, rd[k].am, rd[k].bm) ELSE rd[k].mod,
                                        a |-> IF rd[k].ok THEN ModM(rd[k].a, M) ELSE 0, b |-> IF rd[k].ok THEN ModM(rd[k].b, M) ELSE 0]],
      start |-> IF Cardinality(starts) = 1 THEN (CHOOSE k \in starts : TRUE) - 1 ELSE -1]

\* ---------------------------------------------------------------- printers (spec side)
Signed(v, M) == IF v > M \div 2 THEN v - M ELSE v
ListingOf(code, start, legacy, M) ==
  (IF legacy THEN << >> ELSE << <<"ORG", "START">> >>)
  \o [k \in 1..Len(code) |->
        (IF k - 1 = start THEN <<"START">> ELSE << >>) \o <<code[k].op>> \o (IF legacy THEN << >> ELSE <<code[k].mod>>)
        \o <<code[k].am, Signed(code[k].a, M), code[k].bm, Signed(code[k].b, M)>>]
  \o (IF legacy THEN << <<"END", "START">> >> ELSE << >>)
\* canonical load file as line structures (fields lower-cased by the tokenizer)
=============================================================================
