------------------------------ MODULE Pipeline ------------------------------
(***************************************************************************)
(* The FOR expander of the assembler as a two-process protocol: a PRODUCER  *)
(* (one TLA+ case per forStateFn of forexpand.go, over token CLASSES) that  *)
(* sends tokens over an unbuffered channel, and the CONSUMER loop of        *)
(* Tokens().  FIXED = TRUE is the protocol of the repaired code (producer   *)
(* closes the channel, consumer drains it); FIXED = FALSE is the protocol   *)
(* of the pinned tree, kept to show what TLC reports for it (NoLeak is      *)
(* violated after 5 states on `for <Error>`).                               *)
(*   NoLeak      the consumer never returns while the producer is blocked   *)
(*   Shape       the output ends with exactly one EOF/Error, which is last  *)
(*   Terminates  <>(consumer returned /\ producer exited)   (weak fairness) *)
(*   Emit        prints every input with the output the spec determines -   *)
(*               these cases are replayed through the real ForExpand (C05)  *)
(***************************************************************************)
EXTENDS Integers, Sequences, FiniteSets, TLC, Json
CONSTANTS L, FIXED, EMIT, FAMILY     \* L = max input length (excluding terminator); FAMILY = "all" | "block"

T(t, v) == [t |-> t, v |-> v]
Alphabet == { T("lbl","c"), T("lbl","x"), T("for",0), T("rof",0), T("op",0), T("pseudo",0),
              T("nl",0), T("cmt",0), T("colon",0), T("num",0), T("num",2) }
Term == { T("eof",0), T("err",0) }
IsText(k)   == k.t \in {"lbl","for","rof","op","pseudo"}
IsPseudo(k) == k.t \in {"for","rof","pseudo"}
IsOp(k)     == k.t \in {"for","rof","op","pseudo"}

VARIABLES in, p, outbox, out, cdone, pdone, closedCh
vars == <<in, p, outbox, out, cdone, pdone, closedCh>>

\* f.next()
Nx(q) == IF q.eofF THEN q
         ELSE IF q.ip > Len(in) THEN [q EXCEPT !.eofF = TRUE]
         ELSE LET k == in[q.ip] IN
              [q EXCEPT !.ip = @ + 1, !.tok = k, !.eofF = (k.t \in {"eof","err"})]

R(q, s) == [p |-> q, send |-> s]
St(q, s) == [q EXCEPT !.st = s]

\* expression evaluation abstraction: valid iff exactly one num token
EvalOK(e) == Len(e) = 1 /\ e[1].t = "num"

RECURSIVE Rep(_, _)
Rep(s, n) == IF n <= 0 THEN << >> ELSE s \o Rep(s, n - 1)

\* (block labels are emitted as written since the repair of D24: no private renaming)
SubstTok(k, q, i) ==
  IF IsText(k) /\ k.t = "lbl" /\ k.v = q.cl THEN T("num", i)
  ELSE k
RECURSIVE Body(_, _)
Body(q, i) == IF i > q.fc THEN << >> ELSE [j \in 1..Len(q.cont) |-> SubstTok(q.cont[j], q, i)] \o Body(q, i + 1)

Step(q) ==
  LET k == q.tok IN
  CASE q.st = "forLine" ->
         IF IsText(k) THEN R([St(q, "forConsumeLabels") EXCEPT !.lb = << >>], << >>)
         ELSE R(St(q, "forConsumeEmitLine"), << >>)
    [] q.st = "forConsumeLabels" ->
         IF IsText(k) THEN
            IF IsPseudo(k) THEN
               IF k.t = "for" THEN R([St(Nx(q), "forConsumeExpression") EXCEPT !.eb = << >>], << >>)
               ELSE R(St(q, "forWriteLabels"), << >>)
            ELSE IF IsOp(k) THEN R(St(q, "forWriteLabels"), << >>)
            ELSE R(St(Nx([q EXCEPT !.lb = Append(@, k.v)]), "forConsumeLabels"), << >>)
         ELSE IF k.t = "cmt" THEN R(St(Nx(q), "forConsumeLabels"), <<k, T("nl",0)>>)     \* a comment between labels and instruction stays in the stream (D34)
         ELSE IF k.t \in {"nl","colon"} THEN R(St(Nx(q), "forConsumeLabels"), << >>)
         ELSE R(St(q, "nil"), << T("err",1) >>)
    [] q.st = "forWriteLabels" ->
         R(St(Nx([q EXCEPT !.lb = << >>]), "forConsumeEmitLine"),
           [j \in 1..Len(q.lb) |-> T("lbl", q.lb[j])] \o <<k>>)
    [] q.st = "forConsumeEmitLine" ->
         IF k.t = "nl" THEN R(St(Nx(q), "forLine"), <<k>>)
         ELSE IF k.t \in {"err","eof"} THEN R(St(Nx(q), "nil"), <<k>>)
         ELSE R(St(Nx(q), "forConsumeEmitLine"), <<k>>)
    [] q.st = "forConsumeExpression" ->
         IF k.t = "nl" THEN R(St(Nx(q), "forFor"), << >>)
         ELSE IF k.t = "cmt" THEN R(St(Nx(q), "forConsumeExpression"), << >>)
         ELSE IF k.t = "err" THEN R(St(Nx(q), "nil"), <<k>>)
         ELSE IF k.t = "eof" THEN R(St(q, "nil"), << >>)
         ELSE R(St(Nx([q EXCEPT !.eb = Append(@, k)]), "forConsumeExpression"), << >>)
    [] q.st = "forFor" ->
         IF ~EvalOK(q.eb) THEN R(St(q, "nil"), << T("err",2) >>)
         ELSE LET n == Len(q.lb) IN
              R([St(q, "forInnerLine") EXCEPT
                    !.cl = IF n > 0 THEN q.lb[n] ELSE "",
                    !.ll = IF n > 1 THEN SubSeq(q.lb, 1, n - 1) ELSE << >>,
                    !.tw = IF n > 1 THEN n - 1 ELSE 0,   \* number of block labels still to write; -1 = nil
                    !.fc = q.eb[1].v, !.cont = << >>, !.lb = << >>], << >>)
    [] q.st = "forInnerLine" ->
         IF IsText(k) THEN R([St(q, "forInnerLabels") EXCEPT !.lb = << >>], << >>)
         ELSE R(St(q, "forInnerEmitConsumeLine"), << >>)
    [] q.st = "forInnerLabels" ->
         IF IsText(k) THEN
            IF IsPseudo(k) THEN
               IF k.t = "for" THEN
                    \* the block labels are still pending and will precede this nested block: it gets a counter name of its own
                    R([St(q, "forInnerEmitLabels") EXCEPT !.depth = @ + 1,
                          !.lb = IF q.depth = 0 /\ q.tw >= 0 /\ q.lb = << >> /\ q.ll # << >> THEN <<"anon">> ELSE @], << >>)
               ELSE IF k.t = "rof" THEN
                    IF q.depth > 0 THEN R([St(q, "forInnerEmitConsumeLine") EXCEPT !.depth = @ - 1], << >>)
                    ELSE R(St(q, "forRof"), << >>)
               ELSE R(St(q, "forInnerEmitLabels"), << >>)
            ELSE IF IsOp(k) THEN
               \* the labels as written, in front of the first instruction line read; a block with count 0 keeps them (forCarry)
               IF q.tw >= 0 /\ q.fc > 0 THEN R([St(q, "forInnerEmitLabels") EXCEPT !.tw = -1], [j \in 1..q.tw |-> T("lbl", q.ll[j])])
               ELSE R(St(q, "forInnerEmitLabels"), << >>)
            ELSE R(St(Nx([q EXCEPT !.lb = Append(@, k.v)]), "forInnerLabels"), << >>)
         ELSE R(St(q, "forInnerEmitLabels"), << >>)
    [] q.st = "forInnerEmitLabels" ->
         R([St(q, "forInnerEmitConsumeLine") EXCEPT !.cont = @ \o [j \in 1..Len(q.lb) |-> T("lbl", q.lb[j])]], << >>)
    [] q.st = "forInnerEmitConsumeLine" ->
         IF k.t = "err" THEN R(St(q, "nil"), <<k>>)
         ELSE IF k.t = "eof" THEN R(St(q, "nil"), << >>)
         ELSE IF k.t = "nl" THEN R(St(Nx([q EXCEPT !.cont = Append(@, k)]), "forInnerLine"), << >>)
         ELSE R(St(Nx([q EXCEPT !.cont = Append(@, k)]), "forInnerEmitConsumeLine"), << >>)
    [] q.st = "forRof" ->
         IF k.t \notin {"nl", "eof"} THEN
            IF k.t = "err" THEN R(St(q, "nil"), <<k>>)
            ELSE R(St(Nx(q), "forRof"), << >>)
         ELSE LET q1 == IF k.t = "nl" THEN Nx(q) ELSE q IN        \* the ROF line may be the last of the input (D25)
              IF q.fc <= 0 /\ q.ll # << >> THEN R(St(q1, "forCarry"), << >>)
              ELSE R(St(q1, "forStream"), Body(q, 1))
    [] q.st = "forCarry" ->                                        \* an empty labelled block hands its labels on to the next line
         IF k.t \in {"nl", "cmt"} THEN R(St(Nx(q), "forCarry"), <<k>>)
         ELSE IF k.t = "lbl" THEN R(St(Nx([q EXCEPT !.ll = Append(@, k.v), !.own = TRUE]), "forCarryColons"), << >>)
         ELSE IF IsText(k) THEN
              R(St(q, "forStream"), [j \in 1..Len(q.ll) |-> T("lbl", q.ll[j])] \o (IF k.t = "for" /\ ~q.own THEN <<T("lbl", "anon")>> ELSE << >>))
         ELSE R(St(q, "forStream"), << >>)
    [] q.st = "forCarryColons" ->
         IF k.t = "colon" THEN R(St(Nx(q), "forCarryColons"), << >>)
         ELSE IF k.t = "lbl" THEN R(St(Nx([q EXCEPT !.ll = Append(@, k.v)]), "forCarryColons"), << >>)
         ELSE R(St(q, "forStream"), [j \in 1..Len(q.ll) |-> T("lbl", q.ll[j])])
    [] q.st = "forStream" ->
         IF k.t # "eof" THEN
            IF FIXED /\ k.t = "err" THEN R(St(q, "nil"), <<k>>)
            ELSE R(St(Nx(q), "forStream"), <<k>>)
         ELSE R(St(q, "nil"), << >>)

P0 == [st |-> "forLine", ip |-> 1, tok |-> T("eof",0), eofF |-> FALSE, lb |-> << >>, eb |-> << >>,
       cl |-> "", ll |-> << >>, tw |-> 0, fc |-> 0, cont |-> << >>, depth |-> 0, own |-> FALSE]

\* no two adjacent number tokens (their texts would be concatenated by the real evaluator: "0" "2" reads as 02)
\* (comments inside a FOR count are skipped, so numbers separated only by comments are adjacent too)
NoAdjNums(s) == \A i, j \in 1..Len(s) : (i < j /\ s[i].t = "num" /\ s[j].t = "num") => \E k \in i+1..j-1 : s[k].t # "cmt"
Inputs(m) == { s \in UNION { [1..n -> Alphabet] : n \in 0..m } : NoAdjNums(s) }
\* family "block": well-formed-ish blocks  <labels> for <count> NL <body of <= L tokens> rof NL <post>, so that real
\* expansions (counter substitution, renamed line labels, nested for/rof) are reached with short bodies
Seqs(A, n) == UNION { [1..k -> A] : k \in 0..n }
BodyAlphabet == { T("lbl","c"), T("lbl","x"), T("for",0), T("rof",0), T("op",0), T("nl",0), T("num",2), T("cmt",0), T("colon",0) }
BlockInputs(n) == { pre \o <<T("for",0)>> \o cnt \o <<T("nl",0)>> \o body \o <<T("rof",0)>> \o post :
                   pre \in {<< >>, <<T("lbl","c")>>, <<T("lbl","x"), T("lbl","c")>>},
                   cnt \in {<<T("num",0)>>, <<T("num",2)>>, <<T("lbl","c")>>},
                   body \in { b \in Seqs(BodyAlphabet, n) : NoAdjNums(b) },
                   post \in {<< >>, <<T("nl",0)>>, <<T("nl",0), T("op",0)>>, <<T("cmt",0)>>} }
\* (operators with a parameter: TLC evaluates parameterless constant definitions eagerly at start-up)
InputSet(m) == IF FAMILY = "block" THEN BlockInputs(m) ELSE Inputs(m)
Init == /\ \E s \in InputSet(L), e \in Term : in = s \o <<e>>
        /\ p = (LET q == Nx(P0) IN IF q.eofF THEN St(q, "nil") ELSE q) /\ outbox = << >> /\ out = << >> /\ cdone = FALSE /\ pdone = FALSE /\ closedCh = FALSE

\* producer computes next state function when its outbox is empty
Compute == /\ ~pdone /\ outbox = << >> /\ p.st \notin {"nil", "extra"}
           /\ LET r == Step(p) IN p' = r.p /\ outbox' = r.send
           /\ UNCHANGED <<in, out, cdone, pdone, closedCh>>
\* state machine finished: today's code sends one extra EOF, then sets closed; the fix closes the channel
Finish  == /\ ~pdone /\ outbox = << >> /\ p.st = "nil"
           /\ IF FIXED THEN /\ closedCh' = TRUE /\ pdone' = TRUE /\ UNCHANGED <<p, outbox>>
              ELSE /\ p' = St(p, "extra") /\ outbox' = << T("eof",9) >> /\ UNCHANGED <<closedCh, pdone>>
           /\ UNCHANGED <<in, out, cdone>>
Exit    == /\ ~FIXED /\ ~pdone /\ outbox = << >> /\ p.st = "extra"
           /\ pdone' = TRUE /\ UNCHANGED <<in, p, outbox, out, cdone, closedCh>>
\* rendezvous: consumer takes head of outbox (only while it is still receiving)
Xfer    == /\ outbox # << >> /\ ~cdone
           /\ LET k == Head(outbox) IN
              IF FIXED THEN
                 \* consumer drains until close; keeps tokens up to first eof/err
                 /\ out' = IF out # << >> /\ out[Len(out)].t \in {"eof","err"} THEN out ELSE Append(out, k)
                 /\ cdone' = FALSE
              ELSE /\ out' = Append(out, k) /\ cdone' = (k.t \in {"eof","err"})
           /\ outbox' = Tail(outbox)
           /\ UNCHANGED <<in, p, pdone, closedCh>>
CReturn == /\ FIXED /\ closedCh /\ ~cdone /\ outbox = << >>
           /\ cdone' = TRUE
           /\ out' = IF out # << >> /\ out[Len(out)].t \in {"eof","err"} THEN out ELSE Append(out, T("eof",9))
           /\ UNCHANGED <<in, p, outbox, pdone, closedCh>>
Next == Compute \/ Finish \/ Exit \/ Xfer \/ CReturn
Spec == Init /\ [][Next]_vars /\ WF_vars(Next)

NoLeak == ~(cdone /\ ~pdone /\ outbox # << >>)      \* consumer gone, producer blocked in a send forever
Shape  == cdone => /\ out # << >> /\ out[Len(out)].t \in {"eof","err"}
                   /\ \A i \in 1..Len(out)-1 : out[i].t \notin {"eof","err"}
Terminates == <>(cdone /\ pdone)
Emit == (EMIT /\ cdone /\ pdone) => PrintT(<<"CASE", ToJson([in |-> in, out |-> out])>>)
=============================================================================
