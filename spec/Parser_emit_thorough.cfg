CONSTANTS
  L = 5
  EMIT = TRUE
INIT Init
NEXT Next
INVARIANTS CodeLinesInOrder Emit
CHECK_DEADLOCK FALSE
