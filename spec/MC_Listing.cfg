INIT Init
NEXT Next
CONSTANTS Ms = {7}
INVARIANT RoundTrip
CHECK_DEADLOCK FALSE
