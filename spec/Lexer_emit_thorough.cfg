CONSTANTS
  L = 4
  EMIT = TRUE
INIT Init
NEXT Next
INVARIANTS Shape Emit
CHECK_DEADLOCK FALSE
