INIT Init
NEXT Next
CONSTANTS
  Ms = {3}
  AllLimits = FALSE
  PoolN = 2
INVARIANTS StepProps
CHECK_DEADLOCK FALSE
