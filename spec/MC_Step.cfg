INIT Init
NEXT Next
CONSTANTS
  Ms = {3}
  AllLimits = FALSE
  PoolN = 2
INVARIANTS TypeOK WriteBound ReadBound NoLimit EvCovers EvValid DeathIffNoPush SplOrder
CHECK_DEADLOCK FALSE
