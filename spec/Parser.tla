------------------------------ MODULE Parser ------------------------------
(***************************************************************************)
(* The parser of the assembler (parser.go) over token classes, one case per *)
(* parseStateFn: it groups a token stream into source lines (labels,        *)
(* opcode, A mode, A expression tokens, B mode, B expression tokens),       *)
(* numbers the instruction lines, stops after END, and fails on a           *)
(* malformed line, a redefined label or an undefined reference.             *)
(* Parse(in) = [lines, err]; Emit prints every input up to length L with    *)
(* the result; the cases are replayed through the real parser.              *)
(* Token classes (value in v): lbl a|b, op (mov), org, end, num, sym (+),   *)
(* mode (#), star (the asterisk: addressing mode AND operator), comma, colon, lp, cmt, *)
(* nl, inv; terminators eof, err.                                           *)
(***************************************************************************)
EXTENDS Integers, Sequences, FiniteSets, TLC, Json
CONSTANTS L, EMIT
T(t, v) == [t |-> t, v |-> v]
Alphabet == { T("lbl","a"), T("lbl","b"), T("op","mov"), T("org","org"), T("end","end"), T("num","1"), T("sym","+"),
              T("mode","#"), T("star","*"), T("comma",","), T("colon",":"), T("lp","("), T("cmt",";c"), T("nl",""), T("inv","!") }
Term == { T("eof",""), T("err","e") }
IsText(k)   == k.t \in {"lbl","op","org","end"}
IsPseudo(k) == k.t \in {"org","end"}
IsOp(k)     == k.t \in {"op","org","end"}
IsMode(k)   == k.t \in {"mode","star"}
IsExprTerm(k) == k.t \in {"lbl","op","org","end","num","sym","mode","star","lp"}     \* Symbol, Number, Text, parentheses
Predefined == {"CORESIZE","MAXLENGTH","MAXPROCESSES","MINDISTANCE"}

Nx(q, in) == IF q.eofF THEN q
             ELSE IF q.ip > Len(in) THEN [q EXCEPT !.eofF = TRUE]
             ELSE [q EXCEPT !.ip = @ + 1, !.tok = in[q.ip]]
St(q, s) == [q EXCEPT !.st = s]
Fail(q) == [St(q, "nil") EXCEPT !.err = TRUE]
NewLine == [typ |-> 0, labels |-> << >>, op |-> "", am |-> "", a |-> << >>, bm |-> "", b |-> << >>, code |-> 0]
Emitl(q) == [q EXCEPT !.lines = Append(@, q.cur)]

\* consumeEmitLine(next): consume the comment; the line ends at a newline (consumed) or at the end of the input
ConsumeEmitLine(q, in, s) ==
  LET n == Nx(q, in) IN
  IF n.tok.t = "eof" THEN St(Emitl(n), "nil")
  ELSE IF n.tok.t # "nl" THEN Fail(n)
  ELSE St(Nx(Emitl(n), in), s)

RECURSIVE EmptyLines(_, _), ExprLoop(_, _, _), Colons(_, _)
EmptyLines(q, in) == IF q.tok.t = "nl" THEN EmptyLines(Nx(q, in), in) ELSE q
\* collect expression terms into field f ("a" or "b"); text tokens are recorded as references
ExprLoop(q, in, f) ==
  IF ~IsExprTerm(q.tok) THEN q
  ELSE LET q1 == IF IsText(q.tok) THEN [q EXCEPT !.refs = @ \cup {q.tok.v}] ELSE q
           q2 == IF f = "a" THEN [q1 EXCEPT !.cur.a = Append(@, q.tok)] ELSE [q1 EXCEPT !.cur.b = Append(@, q.tok)]
       IN ExprLoop(Nx(q2, in), in, f)
Colons(q, in) == IF q.tok.t = "colon" THEN Colons(Nx(q, in), in) ELSE q

Step(q, in) ==
  LET k == q.tok IN
  CASE q.st = "line" ->
         IF q.endSeen THEN St(q, "nil")
         ELSE LET q0 == [q EXCEPT !.cur = NewLine] IN
              CASE k.t = "nl"  -> St(Emitl(EmptyLines(q0, in)), "line")
                [] k.t = "cmt" -> ConsumeEmitLine([q0 EXCEPT !.cur.typ = 3], in, "line")
                [] IsText(k)   -> St(q0, "labels")
                [] k.t = "eof" -> St(q0, "nil")
                [] OTHER       -> Fail(q0)
    [] q.st = "labels" ->
         IF k.t \in {"nl","cmt"} THEN St(Nx(q, in), "labels")
         ELSE IF IsOp(k) THEN St(q, IF IsPseudo(k) THEN "pseudo" ELSE "op")
         ELSE IF k.t = "colon" THEN St(q, "colon")
         ELSE \* anything else is taken as a label; it must have been a text token
              LET q1 == [q EXCEPT !.err = @ \/ (k.v \in q.syms), !.syms = @ \cup {k.v}, !.cur.labels = Append(@, k.v)]
                  n  == Nx(q1, in)
              IN IF ~IsText(k) THEN Fail(n) ELSE St(n, "labels")
    [] q.st = "colon" ->
         LET c == Colons(q, in) IN
         IF c.tok.t \in {"nl","cmt"} THEN St(Nx(c, in), "colon")
         ELSE IF IsOp(c.tok) THEN St(c, IF IsPseudo(c.tok) THEN "pseudo" ELSE "op")
         ELSE IF IsText(c.tok) THEN St(c, "labels")
         ELSE Fail(c)
    [] q.st = "pseudo" ->
         LET q1 == [q EXCEPT !.cur.op = k.v, !.cur.typ = 2, !.endSeen = @ \/ (k.t = "end")]
             n  == Nx(q1, in)
             noOperandsOk == k.t = "end"
         IN IF IsExprTerm(n.tok) THEN St(n, "pseudoExpr")
            ELSE IF n.tok.t = "cmt" THEN ConsumeEmitLine(n, in, "line")
            ELSE IF n.tok.t = "eof" /\ noOperandsOk THEN St(Emitl(Nx(n, in)), "nil")
            ELSE IF n.tok.t = "nl" /\ noOperandsOk THEN St(Emitl(Nx(n, in)), "line")
            ELSE Fail(n)
    [] q.st = "pseudoExpr" ->
         LET e == ExprLoop(q, in, "a") IN
         CASE e.tok.t = "cmt" -> ConsumeEmitLine(e, in, "line")
           [] e.tok.t = "nl"  -> St(Emitl(Nx(e, in)), "line")
           [] e.tok.t = "eof" -> St(Emitl(e), "line")
           [] OTHER -> Fail(e)
    [] q.st = "op" ->
         LET q1 == [q EXCEPT !.cur.op = k.v, !.cur.typ = 1, !.cur.code = q.codeLine, !.codeLine = @ + 1]
             n  == Nx(q1, in)
         IN IF IsMode(n.tok) THEN St(n, "modeA")
            ELSE IF IsExprTerm(n.tok) THEN St(n, "exprA")
            ELSE Fail(n)
    [] q.st = "modeA" ->
         LET n == Nx([q EXCEPT !.cur.am = k.v], in) IN
         IF IsExprTerm(n.tok) THEN St(n, "exprA") ELSE Fail(n)
    [] q.st = "exprA" ->
         LET e == ExprLoop(q, in, "a") IN
         CASE e.tok.t = "cmt"   -> ConsumeEmitLine(e, in, "line")
           [] e.tok.t = "comma" -> St(e, "comma")
           [] e.tok.t \in {"nl","eof"} -> St(Emitl(e), "line")           \* the newline is left for the next (empty) line
           [] OTHER -> Fail(e)
    [] q.st = "comma" ->
         LET n == Nx(q, in) IN
         IF IsMode(n.tok) THEN St(n, "modeB") ELSE IF IsExprTerm(n.tok) THEN St(n, "exprB") ELSE Fail(n)
    [] q.st = "modeB" ->
         LET n == Nx([q EXCEPT !.cur.bm = k.v], in) IN
         IF IsExprTerm(n.tok) THEN St(n, "exprB") ELSE Fail(n)
    [] q.st = "exprB" ->
         LET e == ExprLoop(q, in, "b") IN
         CASE e.tok.t = "cmt" -> ConsumeEmitLine(e, in, "line")
           [] e.tok.t = "nl"  -> St(Nx(Emitl(e), in), "line")
           [] e.tok.t = "eof" -> St(Emitl(e), "line")
           [] OTHER -> Fail(e)

RECURSIVE RunParse(_, _)
RunParse(q, in) == IF q.st = "nil" THEN q ELSE RunParse(Step(q, in), in)
Q0 == [st |-> "line", ip |-> 1, tok |-> T("eof",""), eofF |-> FALSE, err |-> FALSE, cur |-> NewLine, lines |-> << >>,
       syms |-> Predefined, refs |-> {}, endSeen |-> FALSE, codeLine |-> 0]
Parse(in) == LET r == RunParse(Nx(Q0, in), in)
                 undefined == \E x \in r.refs : x \notin r.syms
             IN [lines |-> r.lines, err |-> r.err \/ undefined]

Inputs(m) == UNION { [1..n -> Alphabet] : n \in 0..m }
VARIABLE in
Init == \E s \in Inputs(L), e \in Term : in = s \o <<e>>
Next == UNCHANGED in
\* instruction lines are numbered 0, 1, 2, ... in order
CodeLinesInOrder == LET r == Parse(in)
                        ins == SelectSeq(r.lines, LAMBDA x : x.typ = 1)
                    IN ~r.err => \A k \in 1..Len(ins) : ins[k].code = k - 1
Emit == EMIT => PrintT(<<"CASE", ToJson([in |-> in, out |-> Parse(in)])>>)
=============================================================================
