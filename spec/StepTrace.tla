------------------------------ MODULE StepTrace ------------------------------
(***************************************************************************)
(* Trace validation of single task executions recorded from the real       *)
(* simulator (harness "steps").  One state per trace line.                 *)
(*   Mode "C01": the recorded post core and queue equal ExecTask(pre).     *)
(*   Mode "C11": the distance predicates of C11 evaluated on the recorded  *)
(*               pre/post states themselves (independent of C01).          *)
(* A line that fails prints REJECT <index>; the rest is still checked.     *)
(***************************************************************************)
EXTENDS Codec, TLC, Json, IOUtils
Trace == ndJsonDeserialize(IOEnv.VERIF_TRACE)
Mode  == IOEnv.VERIF_MODE

CheckC01(e) ==
  LET cfg  == [M |-> e.M, RL |-> e.RL, WL |-> e.WL]
      pre  == DecCore(e.pre)
      r    == ExecTask(pre, e.pc, cfg)
      post == ApplyDiff(pre, e.d, 1)
  IN /\ e.panic = ""
     /\ r.core = post
     /\ Cap(r.push, e.P) = e.q
     /\ (e.alive = 1) = (r.push # << >>)

CheckC11(e) ==
  LET M == e.M
      pre  == DecCore(e.pre)
      post == ApplyDiff(pre, e.d, 1)
  IN /\ e.panic = ""
     \* every cell that differs is within floor(W/2) of the executing instruction
     /\ \A a \in DiffAddrs(e.d) : post[a] # pre[a] => CDist(a, e.pc, M) <= e.WL \div 2
     \* every queued successor is pc+1, pc+2 or within floor(R/2)
     /\ \A k \in 1..Len(e.q) : \/ e.q[k] \in {(e.pc + 1) % M, (e.pc + 2) % M}
                               \/ CDist(e.q[k], e.pc, M) <= e.RL \div 2
     \* limits equal to the core size have no effect at all
     /\ (e.RL = M /\ e.WL = M) =>
           LET r == ExecTaskNoFold(pre, e.pc, M) IN r.core = post /\ Cap(r.push, e.P) = e.q

Check(e) == IF Mode = "C11" THEN CheckC11(e) ELSE CheckC01(e)

\* what the reference interpreter expects (printed for rejected lines when VERIF_EXPLAIN is set)
Explain(e) ==
  LET pre == DecCore(e.pre)
      r   == ExecTask(pre, e.pc, [M |-> e.M, RL |-> e.RL, WL |-> e.WL])
  IN [executing |-> pre[e.pc], queue |-> Cap(r.push, e.P),
      changed |-> {<<a, r.core[a]>> : a \in {x \in 0..e.M-1 : r.core[x] # pre[x]}}]

VARIABLE l
Init == l = 1
Next == /\ l <= Len(Trace)
        /\ l' = l + 1
        /\ IF Check(Trace[l]) THEN TRUE
           ELSE /\ PrintT(<<"REJECT", l>>)
                /\ ("VERIF_EXPLAIN" \in DOMAIN IOEnv) => PrintT(<<"EXPECT", l, Explain(Trace[l])>>)
Accepted == TLCGet("stats").diameter - 1 = Len(Trace)
=============================================================================
