------------------------------ MODULE StepTrace ------------------------------
(***************************************************************************)
(* Trace validation of single task executions recorded from the real       *)
(* simulator (harness "steps").  One state per trace line.                 *)
(*   Mode "C01": the recorded post core and queue equal ExecTask(pre).     *)
(*   Mode "C11": the distance predicates of C11 evaluated on the recorded  *)
(*               pre/post states themselves (independent of C01).          *)
(* A line that fails prints REJECT <index>; the rest is still checked.     *)
(***************************************************************************)
EXTENDS Codec, TLC, Json, IOUtils
Trace == ndJsonDeserialize(IOEnv.VERIF_TRACE)
Mode  == IOEnv.VERIF_MODE

\* Lines recorded by the in-situ hook of RunCycle (verif_trace.go; e.g. from the repository's own test suite) carry the
\* queue as it was after the pop ("qpre") and may give the core sparsely (cells that differ from the initial core).
QPre(e) == IF "qpre" \in DOMAIN e THEN e.qpre ELSE << >>
Pre(e)  == IF "sparse" \in DOMAIN e /\ e.sparse = 1
           THEN ApplyDiff([a \in 0..e.M-1 |-> Blank], e.pre, 1) ELSE DecCore(e.pre)

CheckC01(e) ==
  LET cfg  == [M |-> e.M, RL |-> e.RL, WL |-> e.WL]
      pre  == Pre(e)
      r    == ExecTask(pre, e.pc, cfg)
      post == ApplyDiff(pre, e.d, 1)
  IN /\ e.panic = ""
     /\ r.core = post
     /\ Cap(QPre(e) \o r.push, e.P) = e.q
     /\ (e.alive = 1) = (QPre(e) \o r.push # << >>)

CheckC11(e) ==
  LET M == e.M
      pre  == Pre(e)
      post == ApplyDiff(pre, e.d, 1)
      np   == Len(QPre(e))
  IN /\ e.panic = ""
     \* every cell that differs is within floor(W/2) of the executing instruction
     /\ \A a \in DiffAddrs(e.d) : post[a] # pre[a] => CDist(a, e.pc, M) <= e.WL \div 2
     \* every queued successor is pc+1, pc+2 or within floor(R/2)
     /\ \A k \in (np+1)..Len(e.q) : \/ e.q[k] \in {(e.pc + 1) % M, (e.pc + 2) % M}
                               \/ CDist(e.q[k], e.pc, M) <= e.RL \div 2
     \* limits equal to the core size have no effect at all
     /\ (e.RL = M /\ e.WL = M) =>
           LET r == ExecTaskNoFold(pre, e.pc, M) IN r.core = post /\ Cap(QPre(e) \o r.push, e.P) = e.q

Check(e) == IF Mode = "C11" THEN CheckC11(e) ELSE CheckC01(e)

\* what the reference interpreter expects (printed for rejected lines when VERIF_EXPLAIN is set)
Explain(e) ==
  LET pre == Pre(e)
      r   == ExecTask(pre, e.pc, [M |-> e.M, RL |-> e.RL, WL |-> e.WL])
  IN [executing |-> pre[e.pc], queue |-> Cap(QPre(e) \o r.push, e.P),
      changed |-> {<<a, r.core[a]>> : a \in {x \in 0..e.M-1 : r.core[x] # pre[x]}}]

VARIABLE l
Init == l = 1
Next == /\ l <= Len(Trace)
        /\ l' = l + 1
        /\ IF Check(Trace[l]) THEN TRUE
           ELSE /\ PrintT(<<"REJECT", l>>)
                /\ ("VERIF_EXPLAIN" \in DOMAIN IOEnv) => PrintT(<<"EXPECT", l, Explain(Trace[l])>>)
Accepted == TLCGet("stats").diameter - 1 = Len(Trace)
=============================================================================
