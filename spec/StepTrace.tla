------------------------------ MODULE StepTrace ------------------------------
EXTENDS MARSCore, TLC, Json, IOUtils
OpN  == <<"DAT","MOV","ADD","SUB","MUL","DIV","MOD","CMP","SEQ","SNE","SLT","JMP","JMZ","JMN","DJN","SPL","NOP">>
ModN == <<"F","A","B","AB","BA","X","I">>
AmN  == <<"$","#","*","@","{","<","}",">">>
Trace == ndJsonDeserialize("steps.ndjson")
Dec(t) == [op |-> OpN[t[1]+1], mod |-> ModN[t[2]+1], am |-> AmN[t[3]+1], a |-> t[4], bm |-> AmN[t[5]+1], b |-> t[6]]
Core(s, M) == [i \in 0..M-1 |-> Dec(s[i+1])]
Cap(q, p) == IF Len(q) > p THEN SubSeq(q, 1, p) ELSE q
Check(e) ==
  LET cfg == [M |-> e.M, RL |-> e.RL, WL |-> e.WL]
      r == ExecTask(Core(e.pre, e.M), e.pc, cfg)
  IN r.core = Core(e.post, e.M) /\ Cap(r.push, e.P) = e.q
VARIABLE l
Init == l = 1
Next == l <= Len(Trace) /\ Check(Trace[l]) /\ l' = l + 1
Accepted == TLCGet("stats").diameter - 1 = Len(Trace)
=============================================================================
