INIT Init
NEXT Next
CONSTANTS
  M = 4
  MaxW = 3
  Ps = {2}
  Cs = {5}
  PoolN = 3
INVARIANTS Safe RefAgree CycleProps RunIsStepping RotInv EvProps
CHECK_DEADLOCK FALSE
