CONSTANTS
  L = 5
  FIXED = TRUE
  FAMILY = "all"
  EMIT = FALSE
SPECIFICATION Spec
INVARIANTS NoLeak Shape
PROPERTY Terminates
CHECK_DEADLOCK FALSE
