CONSTANTS
  L = 3
  EMIT = FALSE
INIT Init
NEXT Next
INVARIANTS Shape
CHECK_DEADLOCK FALSE
