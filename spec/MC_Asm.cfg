INIT Init
NEXT Next
CONSTANTS Dialects = {88, 94}
INVARIANTS Structural EquPlacement Rename Tables
CHECK_DEADLOCK FALSE
