INIT Init
NEXT Next
VIEW view
CONSTANTS
  M = 3
  P = 2
  C = 3
  MaxW = 3
  EMIT = TRUE
INVARIANTS Emit Safe ResetEqualsFresh RunStops BadSpawnNoChange AliveSpawnRefused
CHECK_DEADLOCK FALSE
