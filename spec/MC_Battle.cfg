INIT Init
NEXT Next
CONSTANTS
  M = 4
  MaxW = 2
  Ps = {1, 2}
  Cs = {4}
  PoolN = 6
INVARIANTS Safe RefAgree CycleProps RunIsStepping RotInv EvProps
CHECK_DEADLOCK FALSE
