CONSTANTS
  L = 4
  EMIT = FALSE
INIT Init
NEXT Next
INVARIANTS ErrIffRedefined
CHECK_DEADLOCK FALSE
