------------------------------ MODULE ToolTrace ------------------------------
(***************************************************************************)
(* Load files and listings (C09, C10, C16): validation of recorded reads    *)
(* and printed listings against the format definitions below.               *)
(*  "rt"      a warrior W printed in the canonical load-file layout and in   *)
(*            layout-only perturbations, read by the loader and the          *)
(*            assembler: every result must be exactly W            (C09)     *)
(*  "load"    an arbitrary/corrupted text with its generic line structure:   *)
(*            no panic; a successful read is well-formed, legal under '88,   *)
(*            and has exactly one instruction per effective non-directive    *)
(*            line before the end marker (nothing skipped silently) (C10)    *)
(*  "listing" the pMARS listing conventions read back                (C16)   *)
(***************************************************************************)
EXTENDS Formats, Json, IOUtils
Trace == ndJsonDeserialize(IOEnv.VERIF_TRACE)
Mode  == IOEnv.VERIF_MODE
OpN  == <<"DAT","MOV","ADD","SUB","MUL","DIV","MOD","CMP","SEQ","SNE","SLT","JMP","JMZ","JMN","DJN","SPL","NOP">>
ModN == <<"F","A","B","AB","BA","X","I">>
AmN  == <<"$","#","*","@","{","<","}",">">>
Name(tab, k) == IF k >= 0 /\ k < Len(tab) THEN tab[k + 1] ELSE "???"
DecIns(t) == [op |-> Name(OpN, t[1]), mod |-> Name(ModN, t[2]), am |-> Name(AmN, t[3]), a |-> t[4],
              bm |-> Name(AmN, t[5]), b |-> t[6]]
DecCode(s) == [i \in 1..Len(s) |-> DecIns(s[i])]
\* under '88 rules the modifier is the one the standard implies
Implied(code, dialect) == IF dialect = 88 THEN [k \in 1..Len(code) |-> [code[k] EXCEPT !.mod = Default88(code[k].op, code[k].am, code[k].bm)]]
                          ELSE code
HasMeaning(e) == e.dialect = 88 => \A k \in 1..Len(e.w.code) : Legal88(Implied(DecCode(e.w.code), 88)[k])

\* ---------------------------------------------------------------- C09
CheckRT(e) ==
  LET W == Implied(DecCode(e.w.code), e.dialect) IN
  HasMeaning(e) => \A k \in 1..Len(e.res) :
                      LET r == e.res[k].r IN r.err = 0 /\ DecCode(r.code) = W /\ r.start = e.w.start

\* ---------------------------------------------------------------- C10
CheckLoad(e) ==
  /\ e.res.err # 2
  /\ e.res.err = 0 =>
       LET code == DecCode(e.res.code) IN
       /\ WellFormedW(code, e.res.start, e.M, 1000000)
       /\ e.dialect = 88 => \A k \in 1..Len(code) : Legal88(code[k])
       /\ Len(code) = CountLines(e.lines, 1, [ins |-> 0, dir |-> 0]).ins      \* NoSilentSkip

\* ---------------------------------------------------------------- C16
CheckListing(e) ==
  /\ (e.produced = 1 /\ Len(e.got.code) = 0) => (e.panic = "" /\ e.lines = << >>)      \* an empty warrior has an empty listing
  /\ (e.produced = 1 /\ Len(e.got.code) > 0) =>
     /\ e.panic = ""
     /\ Len(e.lines) = Len(e.got.code) + 1
     /\ LET r == ReadListing(e.lines, e.dialect = 88, e.M) IN
        r.ok /\ r.code = DecCode(e.got.code) /\ r.start = e.got.start

Check(e) == CASE e.ev = "rt" -> CheckRT(e) [] e.ev = "load" -> CheckLoad(e) [] e.ev = "listing" -> CheckListing(e) [] OTHER -> FALSE
NoMeaning(e) == (e.ev = "rt" /\ ~HasMeaning(e)) \/ (e.ev = "listing" /\ e.produced = 0)

VARIABLE l
Init == l = 1
Next == /\ l <= Len(Trace)
        /\ l' = l + 1
        /\ IF Check(Trace[l]) THEN NoMeaning(Trace[l]) => PrintT(<<"NOMEANING", l>>)
           ELSE PrintT(<<"REJECT", l>>)
Accepted == TLCGet("stats").diameter - 1 = Len(Trace)
=============================================================================
