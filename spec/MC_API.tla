------------------------------ MODULE MC_API ------------------------------
(***************************************************************************)
(* The complete reachable state graph of the API-level state machine on a  *)
(* tiny core: AddWarrior(w in pool), SpawnWarrior(i in -1..count+1,         *)
(* off in {0, M-1, M, 2M+3}), RunCycle, Run, Reset - every call is enabled  *)
(* in every state (ApiTotal: TLC evaluates each of them without error).     *)
(*   Safe              the C04 invariants after any call sequence           *)
(*   ResetEqualsFresh  Reset yields exactly the state of a fresh simulator  *)
(*                     to which the same warriors were added     (C13)      *)
(*   RunStops          Run always ends in a state that is not in progress   *)
(*   BadSpawnNoChange  a spawn that reports an error changes nothing        *)
(***************************************************************************)
EXTENDS MARS, TLC, Json
CONSTANTS M, P, C, MaxW, EMIT

Cfg == [M |-> M, P |-> P, C |-> C, RL |-> M, WL |-> M]
WPool == << [code |-> << Ins("MOV","I","$",0,"$",1) >>, start |-> 0],
            [code |-> << Ins("DAT","F","#",0,"#",0) >>, start |-> 0],
            [code |-> << Ins("SPL","B","$",0,"<",1), Ins("JMP","B","$",M-1,"$",0) >>, start |-> 1] >>
Offs == {0, M-1, M, 2*M+3}

\* hist is a witness: it is not part of the VIEW, so TLC keeps, for every distinct state S, the call history of the
\* (breadth-first, hence shortest) path on which it first reached S.  Emit prints it with the observation of S;
\* the harness replays every witness on the real simulator (one implementation test per reachable spec state).
VARIABLES S, last, hist
Init == S = NewState(Cfg) /\ last = "new" /\ hist = << >>
Add(k)      == N(S) < MaxW /\ S' = AddW(S, WPool[k]) /\ last' = "add" /\ hist' = Append(hist, <<"add", k - 1>>)
Spawn(i, o) == LET r == SpawnW(S, i, o) IN S' = r.S /\ last' = (IF r.err = "" THEN "spawn" ELSE "spawn-error") /\ hist' = Append(hist, <<"spawn", i, o>>)
\* only the deterministic part of RunCycle is used for witnesses (no-op in PartialStart is what RunCycleW does)
RunCycle    == ~(EMIT /\ PartialStart(S)) /\ S' = RunCycleW(S) /\ last' = "cycle" /\ hist' = Append(hist, <<"cycle">>)
Run         == S' = RunW(S) /\ last' = "run" /\ hist' = Append(hist, <<"run">>)
Reset       == S' = ResetW(S) /\ last' = "reset" /\ hist' = Append(hist, <<"reset">>)
Next == \/ \E k \in 1..Len(WPool) : Add(k)
        \/ \E i \in -1..N(S)+1, o \in Offs : Spawn(i, o)
        \/ RunCycle \/ Run \/ Reset
view == S

Safe == SafeState(S)
RECURSIVE Fresh(_, _)
Fresh(wd, k) == IF k = 0 THEN NewState(Cfg) ELSE AddW(Fresh(wd, k - 1), wd[k])
ResetEqualsFresh == ResetW(S) = Fresh(S.wd, N(S))
RunStops == ~InProgress(RunW(S))
BadSpawnNoChange == \A i \in {-1, N(S), N(S) + 1} : SpawnW(S, i, 0).S = S /\ SpawnW(S, i, 0).err = "index"
Obs == [cycle |-> S.cycle, living |-> S.living, alive |-> [k \in 1..N(S) |-> IF S.ws[k] = "alive" THEN 1 ELSE 0],
        q |-> [k \in 1..N(S) |-> IF S.ws[k] = "alive" THEN S.wq[k] ELSE << >>],
        core |-> [a \in 1..M |-> S.core[a - 1]], partial |-> PartialStart(S)]
Emit == EMIT => PrintT(<<"CASE", ToJson([hist |-> hist, obs |-> Obs, M |-> M, P |-> P, C |-> C, pool |-> WPool])>>)
AliveSpawnRefused == \A i \in 0..N(S)-1 : S.ws[i+1] = "alive" => SpawnW(S, i, M).S = S /\ SpawnW(S, i, M).err = "alive"
=============================================================================
