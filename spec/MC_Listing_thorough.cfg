INIT Init
NEXT Next
CONSTANTS Ms = {7, 8, 8000}
INVARIANT RoundTrip
CHECK_DEADLOCK FALSE
