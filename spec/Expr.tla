------------------------------ MODULE Expr ------------------------------
(***************************************************************************)
(* The operand expression language of Redcode ON TOKEN SEQUENCES (EQU      *)
(* substitution is textual, so an AST semantics would be wrong for          *)
(* `x equ 1+2 ... x*3`).                                                    *)
(*   expr    := term (('+'|'-') term)*                                      *)
(*   term    := unary (('*'|'/'|'%') unary)*                                *)
(*   unary   := ('+'|'-')* primary                                          *)
(*   primary := NUM | '(' expr ')'                                          *)
(* Tokens: <<"n", v>> | <<"+">> <<"-">> <<"*">> <<"/">> <<"%">> <<"(">> <<")">>. *)
(* Exact integer arithmetic (TLC integers; generators keep every           *)
(* intermediate value below 2^31), '/' and '%' truncate toward zero,        *)
(* division by zero is an error.  Eval returns [ok, v].                     *)
(***************************************************************************)
EXTENDS Integers, Sequences
Abs(a) == IF a < 0 THEN -a ELSE a
TruncDiv(a, b) == LET q == Abs(a) \div Abs(b) IN IF (a < 0) # (b < 0) THEN -q ELSE q
TruncRem(a, b) == a - b * TruncDiv(a, b)
Res(v, p, e) == [v |-> v, p |-> p, e |-> e]     \* value, next position, error flag
RECURSIVE PExpr(_, _), PTerm(_, _), PUnary(_, _), PPrim(_, _), ExprLoop(_, _), TermLoop(_, _)
At(t, i) == IF i <= Len(t) THEN t[i][1] ELSE "$"
PPrim(t, i) ==
  IF At(t, i) = "n" THEN Res(t[i][2], i + 1, FALSE)
  ELSE IF At(t, i) = "(" THEN
         LET r == PExpr(t, i + 1) IN
         IF r.e \/ At(t, r.p) # ")" THEN Res(0, r.p, TRUE) ELSE Res(r.v, r.p + 1, FALSE)
  ELSE Res(0, i, TRUE)
PUnary(t, i) ==
  IF At(t, i) = "-" THEN LET r == PUnary(t, i + 1) IN Res(-r.v, r.p, r.e)
  ELSE IF At(t, i) = "+" THEN PUnary(t, i + 1)
  ELSE PPrim(t, i)
TermLoop(t, l) ==
  IF l.e \/ At(t, l.p) \notin {"*", "/", "%"} THEN l
  ELSE LET o == At(t, l.p)  r == PUnary(t, l.p + 1) IN
       IF r.e \/ (o # "*" /\ r.v = 0) THEN Res(0, r.p, TRUE)
       ELSE TermLoop(t, Res(IF o = "*" THEN l.v * r.v ELSE IF o = "/" THEN TruncDiv(l.v, r.v) ELSE TruncRem(l.v, r.v), r.p, FALSE))
PTerm(t, i) == TermLoop(t, PUnary(t, i))
ExprLoop(t, l) ==
  IF l.e \/ At(t, l.p) \notin {"+", "-"} THEN l
  ELSE LET o == At(t, l.p)  r == PTerm(t, l.p + 1) IN
       IF r.e THEN Res(0, r.p, TRUE)
       ELSE ExprLoop(t, Res(IF o = "+" THEN l.v + r.v ELSE l.v - r.v, r.p, FALSE))
PExpr(t, i) == ExprLoop(t, PTerm(t, i))
Eval(t) == LET r == PExpr(t, 1) IN IF r.e \/ r.p # Len(t) + 1 THEN [ok |-> FALSE, v |-> 0] ELSE [ok |-> TRUE, v |-> r.v]

\* value reduced into [0, M)
ModM(v, M) == ((v % M) + M) % M

(* A second, independent semantics on abstract syntax trees, with a renderer; MC_Expr checks   *)
(* Eval(Render(ast)) = EvalAst(ast) exhaustively in small scope, so the oracle itself is checked. *)
(* ast: <<"lit", v>> | <<"neg", a>> | <<"pos", a>> | <<"par", a>> | <<op, a, b>>                 *)
RECURSIVE EvalAst(_)
EvalAst(a) ==
  CASE a[1] = "lit" -> [ok |-> TRUE, v |-> a[2]]
    [] a[1] = "neg" -> LET x == EvalAst(a[2]) IN [ok |-> x.ok, v |-> -x.v]
    [] a[1] \in {"pos", "par"} -> EvalAst(a[2])
    [] OTHER -> LET x == EvalAst(a[2])  y == EvalAst(a[3]) IN
                IF ~x.ok \/ ~y.ok \/ (a[1] \in {"/", "%"} /\ y.v = 0) THEN [ok |-> FALSE, v |-> 0]
                ELSE [ok |-> TRUE, v |-> CASE a[1] = "+" -> x.v + y.v [] a[1] = "-" -> x.v - y.v [] a[1] = "*" -> x.v * y.v
                                            [] a[1] = "/" -> TruncDiv(x.v, y.v) [] a[1] = "%" -> TruncRem(x.v, y.v)]
Prec(a) == CASE a[1] \in {"+", "-"} -> 1 [] a[1] \in {"*", "/", "%"} -> 2 [] a[1] \in {"neg", "pos"} -> 3 [] OTHER -> 4
RECURSIVE Render(_)
Paren(a, need) == IF need THEN << <<"(">> >> \o Render(a) \o << <<")">> >> ELSE Render(a)
Render(a) ==
  CASE a[1] = "lit" -> IF a[2] < 0 THEN << <<"-">>, <<"n", -a[2]>> >> ELSE << <<"n", a[2]>> >>
    [] a[1] = "neg" -> << <<"-">> >> \o Paren(a[2], Prec(a[2]) < 3)
    [] a[1] = "pos" -> << <<"+">> >> \o Paren(a[2], Prec(a[2]) < 3)
    [] a[1] = "par" -> Paren(a[2], TRUE)
    [] OTHER -> \* left associative: the right operand needs parentheses at equal precedence
                Paren(a[2], Prec(a[2]) < Prec(a)) \o << <<a[1]>> >> \o Paren(a[3], Prec(a[3]) <= Prec(a))
=============================================================================
