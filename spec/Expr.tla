------------------------------ MODULE Expr ------------------------------
EXTENDS Integers, Sequences, TLC
\* tokens: <<"n", v>> | <<"+">> | <<"-">> | <<"*">> | <<"/">> | <<"%">> | <<"(">> | <<")">>
TruncDiv(a, b) == LET q == (IF a < 0 THEN -a ELSE a) \div (IF b < 0 THEN -b ELSE b)
                  IN IF (a < 0) # (b < 0) THEN -q ELSE q
TruncRem(a, b) == a - b * TruncDiv(a, b)
Res(v, p, e) == [v |-> v, p |-> p, e |-> e]     \* value, next position, error flag
RECURSIVE PExpr(_, _), PTerm(_, _), PUnary(_, _), PPrim(_, _), ExprLoop(_, _), TermLoop(_, _)
At(t, i) == IF i <= Len(t) THEN t[i][1] ELSE "$"
PPrim(t, i) ==
  IF At(t, i) = "n" THEN Res(t[i][2], i + 1, FALSE)
  ELSE IF At(t, i) = "(" THEN
         LET r == PExpr(t, i + 1) IN
         IF r.e \/ At(t, r.p) # ")" THEN Res(0, r.p, TRUE) ELSE Res(r.v, r.p + 1, FALSE)
  ELSE Res(0, i, TRUE)
PUnary(t, i) ==
  IF At(t, i) = "-" THEN LET r == PUnary(t, i + 1) IN Res(-r.v, r.p, r.e)
  ELSE IF At(t, i) = "+" THEN PUnary(t, i + 1)
  ELSE PPrim(t, i)
TermLoop(t, l) ==
  IF l.e \/ At(t, l.p) \notin {"*", "/", "%"} THEN l
  ELSE LET o == At(t, l.p)  r == PUnary(t, l.p + 1) IN
       IF r.e \/ (o # "*" /\ r.v = 0) THEN Res(0, r.p, TRUE)
       ELSE TermLoop(t, Res(IF o = "*" THEN l.v * r.v ELSE IF o = "/" THEN TruncDiv(l.v, r.v) ELSE TruncRem(l.v, r.v), r.p, FALSE))
PTerm(t, i) == TermLoop(t, PUnary(t, i))
ExprLoop(t, l) ==
  IF l.e \/ At(t, l.p) \notin {"+", "-"} THEN l
  ELSE LET o == At(t, l.p)  r == PTerm(t, l.p + 1) IN
       IF r.e THEN Res(0, r.p, TRUE)
       ELSE ExprLoop(t, Res(IF o = "+" THEN l.v + r.v ELSE l.v - r.v, r.p, FALSE))
PExpr(t, i) == ExprLoop(t, PTerm(t, i))
Eval(t) == LET r == PExpr(t, 1) IN IF r.e \/ r.p # Len(t) + 1 THEN "error" ELSE r.v

n(v) == <<"n", v>>
Tests == << <<n(1), <<"-">>, <<"-">>, <<"-">>, n(5)>>,            \* 1 - - - 5 = -4
            <<n(5), <<"*">>, <<"-">>, <<"-">>, n(1)>>,            \* 5*-(-1) = 5
            <<<<"-">>, <<"-">>, <<"-">>, n(5)>>,                   \* -5
            <<n(1), <<"+">>, n(2), <<"*">>, n(3)>>,                \* 7
            <<<<"(">>, n(1), <<"+">>, n(2), <<")">>, <<"*">>, n(3)>>, \* 9
            <<<<"-">>, n(7), <<"/">>, n(2)>>, <<<<"-">>, n(7), <<"%">>, n(3)>>, \* -3, -1
            <<n(7), <<"/">>, n(0)>>, <<n(10), <<"-">>, n(2), <<"-">>, n(3)>>, <<n(100), <<"/">>, n(5), <<"/">>, n(2)>> >>
ASSUME PrintT([i \in 1..Len(Tests) |-> Eval(Tests[i])])
VARIABLE x
Init == x = 0
Next == UNCHANGED x
=============================================================================
