------------------------------ MODULE CliTrace ------------------------------
(***************************************************************************)
(* The command-line tool (C17): every recorded invocation of the real      *)
(* gmars binary is checked against                                          *)
(*   Config(flags)   the configuration the options describe (presets as     *)
(*                   documented in README.md; no read/write limit smaller   *)
(*                   than the core is documented, so limits = core size;    *)
(*                   the minimum distance, also undocumented, is the length *)
(*                   except for icws where the library's table says 100)    *)
(*   Asm!Meaning     what the generated warrior files denote                *)
(*   MARS!RunW       the battle at the fixed placement of warrior 2         *)
(* Fixed placement: both result lines must equal the tallies of r identical *)
(* rounds.  Random placement: w1+w2+ties = rounds and ties1 = ties2.        *)
(***************************************************************************)
EXTENDS MARS, Formats, Json, IOUtils
Trace == ndJsonDeserialize(IOEnv.VERIF_TRACE)

Presets == [nop94   |-> [d |-> 94, M |-> 8000, L |-> 100, P |-> 8000, C |-> 80000],
            eightyeight |-> [d |-> 88, M |-> 8000, L |-> 100, P |-> 8000, C |-> 80000],
            icws    |-> [d |-> 88, M |-> 8192, L |-> 300, P |-> 8000, C |-> 100000],
            noptiny |-> [d |-> 94, M |-> 800,  L |-> 20,  P |-> 800,  C |-> 8000],
            nop256  |-> [d |-> 94, M |-> 256,  L |-> 10,  P |-> 60,   C |-> 2560],
            nopnano |-> [d |-> 94, M |-> 80,   L |-> 5,   P |-> 80,   C |-> 800]]
Config(f) ==
  IF f.preset # "" THEN LET p == Presets[IF f.preset = "88" THEN "eightyeight" ELSE f.preset] IN
                        [d |-> p.d, M |-> p.M, L |-> p.L, D |-> IF f.preset = "icws" THEN 100 ELSE p.L, P |-> p.P, C |-> p.C, RL |-> p.M, WL |-> p.M]
  ELSE [d |-> IF f.eight = 1 THEN 88 ELSE 94, M |-> f.s, L |-> f.l, D |-> f.l, P |-> f.p, C |-> f.c, RL |-> f.s, WL |-> f.s]

\* one battle: warrior 1 at 0, warrior 2 (if any) at F
Battle(cfg, ws, F) ==
  LET S0 == NewState([M |-> cfg.M, P |-> cfg.P, C |-> cfg.C, RL |-> cfg.RL, WL |-> cfg.WL])
      S1 == SpawnW(AddW(S0, [code |-> ws[1].code, start |-> ws[1].start]), 0, 0).S
      S2 == IF Len(ws) = 2 THEN SpawnW(AddW(S1, [code |-> ws[2].code, start |-> ws[2].start]), 1, F).S ELSE S1
  IN RunW(S2)

CheckCli(e) ==
  LET cfg == Config(e.flags)
      n   == Len(e.progs)
      ms  == [k \in 1..n |-> Meaning(e.progs[k])]
      okp == \A k \in 1..n : ~ms[k].err /\ e.progs[k].M = cfg.M /\ e.progs[k].L = cfg.L /\ e.progs[k].P = cfg.P
                                /\ e.progs[k].D = cfg.D /\ e.progs[k].dialect = cfg.d
      r   == e.flags.r
  IN okp =>
     /\ e.exit = 0 /\ e.timeout = 0 /\ e.parsed = 1
     /\ Len(e.out) = n /\ \A k \in 1..n : Len(e.out[k]) = 2
     /\ IF n = 2 /\ e.flags.F = 0
        THEN \* random placement: every round counted exactly once
             /\ e.out[1][2] = e.out[2][2]
             /\ e.out[1][1] + e.out[2][1] + e.out[1][2] = r
             /\ \A k \in 1..2 : e.out[k][1] >= 0 /\ e.out[k][2] >= 0
        ELSE LET R  == Battle(cfg, ms, e.flags.F)
                 a1 == R.ws[1] = "alive"
                 a2 == n = 2 /\ R.ws[2] = "alive"
             IN IF n = 1 THEN e.out[1] = <<IF a1 THEN r ELSE 0, 0>>
                ELSE /\ e.out[1] = <<IF a1 /\ ~a2 THEN r ELSE 0, IF a1 /\ a2 THEN r ELSE 0>>
                     /\ e.out[2] = <<IF a2 /\ ~a1 THEN r ELSE 0, IF a1 /\ a2 THEN r ELSE 0>>
\* gmars -debug: the debug reporter's transcript, projected onto its scheduling skeleton (the harness keeps the cycle, spawn,
\* exec and warrior-terminated lines and counts the rest), must be the skeleton of the battle MARS.tla describes: one
\* "cycle n" line per started cycle with n the completed-cycle count, one "exec" line per executed task in scheduling order
\* with its program counter, one "wterm" line exactly when a warrior dies.  (Only asked of determined battles, one round.)
SkelOf(ev) == LET f == SelectSeq(ev, LAMBDA t : t[1] \in {"Pop", "Die"})
              IN [k \in 1..Len(f) |-> <<IF f[k][1] = "Pop" THEN "exec" ELSE "wterm", f[k][2], f[k][3]>>]
RECURSIVE RunLog(_, _)
RunLog(S, acc) == IF InProgress(S) THEN LET c == CycleW(S) IN RunLog(c.S, acc \o << <<"cycle", S.cycle, 0>> >> \o SkelOf(c.ev))
                  ELSE acc
BattleLog(cfg, ws, F) ==
  LET S0 == NewState([M |-> cfg.M, P |-> cfg.P, C |-> cfg.C, RL |-> cfg.RL, WL |-> cfg.WL])
      S1 == SpawnW(AddW(S0, [code |-> ws[1].code, start |-> ws[1].start]), 0, 0).S
      S2 == IF Len(ws) = 2 THEN SpawnW(AddW(S1, [code |-> ws[2].code, start |-> ws[2].start]), 1, F).S ELSE S1
  IN RunLog(S2, << <<"spawn", 0, 0>> >> \o (IF Len(ws) = 2 THEN << <<"spawn", 1, F % cfg.M>> >> ELSE << >>))
CheckCliD(e) ==
  LET cfg == Config(e.flags)
      n   == Len(e.progs)
      ms  == [k \in 1..n |-> Meaning(e.progs[k])]
      okp == \A k \in 1..n : ~ms[k].err /\ e.progs[k].M = cfg.M /\ e.progs[k].L = cfg.L /\ e.progs[k].P = cfg.P
                                /\ e.progs[k].D = cfg.D /\ e.progs[k].dialect = cfg.d
  IN /\ CheckCli(e)
     /\ (okp /\ e.flags.r = 1 /\ (n = 1 \/ e.flags.F # 0)) => e.log = BattleLog(cfg, ms, e.flags.F)
\* gmars -A: no battle; one listing per warrior, which must read back (pMARS listing conventions, Formats!ReadListing) as
\* what the warrior file denotes under the configuration the options describe
CheckCliA(e) ==
  LET cfg == Config(e.flags)
      n   == Len(e.progs)
      ms  == [k \in 1..n |-> Meaning(e.progs[k])]
      okp == \A k \in 1..n : ~ms[k].err /\ Len(ms[k].code) > 0 /\ e.progs[k].M = cfg.M /\ e.progs[k].L = cfg.L /\ e.progs[k].P = cfg.P
                                /\ e.progs[k].D = cfg.D /\ e.progs[k].dialect = cfg.d
  IN okp =>
     /\ e.exit = 0 /\ e.timeout = 0
     /\ Len(e.lists) = n
     /\ \A k \in 1..n : LET r == ReadListing(e.lists[k], cfg.d = 88, cfg.M) IN
                          r.ok /\ r.code = ms[k].code /\ r.start = ms[k].start
Check(e) == IF e.ev = "cliA" THEN CheckCliA(e) ELSE IF e.ev = "cliD" THEN CheckCliD(e) ELSE CheckCli(e)
NoMeaning(e) == \E k \in 1..Len(e.progs) : Meaning(e.progs[k]).err

VARIABLE l
Init == l = 1
Next == /\ l <= Len(Trace)
        /\ l' = l + 1
        /\ IF Check(Trace[l]) THEN NoMeaning(Trace[l]) => PrintT(<<"NOMEANING", l>>)
           ELSE PrintT(<<"REJECT", l>>)
Accepted == TLCGet("stats").diameter - 1 = Len(Trace)
=============================================================================
