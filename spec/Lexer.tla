------------------------------ MODULE Lexer ------------------------------
(***************************************************************************)
(* The lexer of the assembler (lex.go) as a machine over rune CLASSES, one  *)
(* TLA+ operator per lexStateFn, including its one-rune look-ahead          *)
(* (`next()` returns the previous look-ahead and, at end of input, keeps    *)
(* the last rune).  A rune is a one-character string; representatives:      *)
(*   " " blank  "\n" newline  "a" letter  "_"  "."  "0"  "7" digit          *)
(*   ";" "," "(" ")" "+" arithmetic  "$" mode  "<" ">" ":" "=" "|" "&"      *)
(*   "Z" = ^Z (0x1a)   "N" = NUL   "!" = any other rune                     *)
(* Lex(input) is the complete sequence of tokens the producer goroutine     *)
(* SENDS; the consumer (Tokens()) stops reading at the first EOF or Error,  *)
(* so the producer terminates iff that terminator is the last thing sent:   *)
(*   Shape   exactly one EOF/Error, in last position   (no leaked producer) *)
(*   Emit    prints input and output for replay through the real lexer      *)
(***************************************************************************)
EXTENDS Integers, Sequences, TLC, Json
CONSTANTS L, EMIT

Runes == {" ", "\n", "a", "_", ".", "0", "7", ";", ",", "(", ")", "+", "$", "<", ">", ":", "=", "|", "&", "Z", "N", "!"}
IsSpace(r)  == r \in {" ", "\n"}
IsLetter(r) == r = "a"
IsDigit(r)  == r \in {"0", "7"}

Tok(t, v) == <<t, v>>
\* state: i = index of the next unread rune, nr = look-ahead rune, eof = reader exhausted, out = tokens sent
\* next(): returns [s, last, eof]
NextR(s, in) ==
  IF s.eof THEN [s |-> s, last |-> "N", eof |-> TRUE]
  ELSE IF s.i > Len(in) THEN [s |-> [s EXCEPT !.eof = TRUE], last |-> s.nr, eof |-> TRUE]
  ELSE [s |-> [s EXCEPT !.nr = in[s.i], !.i = @ + 1], last |-> s.nr, eof |-> FALSE]
Send(s, t) == [s EXCEPT !.out = Append(@, t)]
Stop(s) == [s EXCEPT !.st = "nil"]
Goto(s, st) == [s EXCEPT !.st = st]
EOFTok == Tok("eof", "")

\* consume(next) / emitConsume(tok, next)
Consume(s, in, st) == LET n == NextR(s, in) IN IF n.eof THEN Stop(Send(n.s, EOFTok)) ELSE Goto(n.s, st)
EmitConsume(s, in, t, st) == Consume(Send(s, t), in, st)

RECURSIVE SpaceLoop(_, _), TextLoop(_, _, _), ZeroLoop(_, _), DigitLoop(_, _, _), CommentLoop(_, _, _)
SpaceLoop(s, in) ==
  IF ~IsSpace(s.nr) THEN Goto(s, "input")
  ELSE LET s1 == IF s.nr = "\n" THEN Send(s, Tok("nl", "")) ELSE s
           n  == NextR(s1, in)
       IN IF n.eof THEN Stop(Send(n.s, EOFTok)) ELSE SpaceLoop(n.s, in)
TextLoop(s, in, buf) ==
  IF ~(IsLetter(s.nr) \/ IsDigit(s.nr) \/ s.nr \in {".", "_"})
  THEN Goto(IF buf # "" THEN Send(s, Tok("text", buf)) ELSE s, "input")
  ELSE LET n == NextR(s, in) IN
       IF n.eof THEN Stop(Send(Send(n.s, Tok("text", buf \o n.last)), EOFTok))
       ELSE TextLoop(n.s, in, buf \o n.last)
DigitLoop(s, in, buf) ==
  IF ~IsDigit(s.nr) THEN Goto(Send(s, Tok("num", IF buf = "" THEN "0" ELSE buf)), "input")
  ELSE LET n == NextR(s, in) IN
       IF n.eof THEN Stop(Send(Send(n.s, Tok("num", buf \o n.last)), EOFTok))
       ELSE DigitLoop(n.s, in, buf \o n.last)
ZeroLoop(s, in) ==
  IF s.nr # "0" THEN DigitLoop(s, in, "")
  ELSE LET n == NextR(s, in) IN
       IF n.eof THEN Stop(Send(Send(n.s, Tok("num", "0")), EOFTok)) ELSE ZeroLoop(n.s, in)
CommentLoop(s, in, buf) ==
  IF s.nr = "\n" THEN Goto(Send(s, Tok("cmt", buf)), "input")
  ELSE LET n == NextR(s, in) IN
       IF n.eof THEN Stop(Send(Send(n.s, Tok("cmt", buf \o s.nr)), EOFTok))
       ELSE CommentLoop(n.s, in, buf \o s.nr)

Step(s, in) ==
  LET r == s.nr IN
  CASE s.st = "input" ->
         IF IsSpace(r) THEN SpaceLoop(s, in)
         ELSE IF IsLetter(r) \/ r = "_" THEN TextLoop(s, in, "")
         ELSE IF IsDigit(r) THEN ZeroLoop(s, in)
         ELSE CASE r = "N" -> Stop(Send(s, EOFTok))
                [] r = ";" -> CommentLoop(s, in, "")
                [] r = "," -> EmitConsume(s, in, Tok("comma", ","), "input")
                [] r = "(" -> EmitConsume(s, in, Tok("lp", "("), "input")
                [] r = ")" -> EmitConsume(s, in, Tok("rp", ")"), "input")
                [] r \in {"+", "$"} -> EmitConsume(s, in, Tok("sym", r), "input")
                [] r = "<" -> Consume(s, in, "lt")
                [] r = ">" -> Consume(s, in, "gt")
                [] r = ":" -> EmitConsume(s, in, Tok("colon", ":"), "input")
                [] r = "=" -> Consume(s, in, "equals")
                [] r = "|" -> Consume(s, in, "pipe")
                [] r = "&" -> Consume(s, in, "and")
                [] r = "Z" -> Consume(s, in, "input")
                [] OTHER   -> Stop(Send(Send(s, Tok("inv", r)), EOFTok))
    [] s.st = "lt" -> IF r = "=" THEN EmitConsume(s, in, Tok("sym", "<="), "input") ELSE Goto(Send(s, Tok("sym", "<")), "input")
    [] s.st = "gt" -> IF r = "=" THEN EmitConsume(s, in, Tok("sym", ">="), "input") ELSE Goto(Send(s, Tok("sym", ">")), "input")
    [] s.st = "equals" -> IF r = "=" THEN EmitConsume(s, in, Tok("sym", "=="), "input") ELSE Stop(Send(s, Tok("err", "")))
    [] s.st = "pipe"   -> IF r = "|" THEN EmitConsume(s, in, Tok("sym", "||"), "input") ELSE Stop(Send(s, Tok("err", "")))
    [] s.st = "and"    -> IF r = "&" THEN EmitConsume(s, in, Tok("sym", "&&"), "input") ELSE Stop(Send(s, Tok("err", "")))

RECURSIVE RunLex(_, _)
RunLex(s, in) == IF s.st = "nil" THEN s ELSE RunLex(Step(s, in), in)
\* newLexer primes the look-ahead with one next()
Lex(in) == LET s0 == [i |-> 1, nr |-> "N", eof |-> FALSE, out |-> << >>, st |-> "input"]
           IN RunLex(NextR(s0, in).s, in).out

Inputs(m) == UNION { [1..n -> Runes] : n \in 0..m }
VARIABLE in
Init == in \in Inputs(L)
Next == UNCHANGED in
IsTerm(t) == t[1] \in {"eof", "err"}
Shape == LET o == Lex(in) IN /\ o # << >> /\ IsTerm(o[Len(o)]) /\ \A k \in 1..Len(o)-1 : ~IsTerm(o[k])
Emit == EMIT => PrintT(<<"CASE", ToJson([in |-> in, out |-> Lex(in)])>>)
=============================================================================
