------------------------------ MODULE Scanner ------------------------------
(***************************************************************************)
(* The symbol scanner of the assembler (symbol_scanner.go) over token       *)
(* classes, one case per scanStateFn.  It collects `name ... EQU value`     *)
(* definitions up to the first FOR (or END), reports whether a FOR was seen *)
(* and fails on a redefinition.  Scan(in) = [syms, forSeen, err] where syms *)
(* is a sequence of <<name, value tokens>> in definition order.             *)
(* Emit prints every input up to length L with the result; the cases are    *)
(* replayed through the real ScanInput (verif accessor).                    *)
(***************************************************************************)
EXTENDS Integers, Sequences, TLC, Json
CONSTANTS L, EMIT
T(t, v) == [t |-> t, v |-> v]
Alphabet == { T("lbl","a"), T("lbl","b"), T("equ",0), T("for",0), T("end",0), T("org",0), T("op",0),
              T("nl",0), T("cmt",0), T("num",1), T("sym",0), T("colon",0) }
Term == { T("eof",0), T("err",0) }
IsText(k)   == k.t \in {"lbl","equ","for","end","org","op"}
IsPseudo(k) == k.t \in {"equ","for","end","org"}

\* p.next(): the look-ahead moves on; atEOF after an EOF or Error token has been taken
Nx(q, in) == IF q.eofF THEN q
             ELSE IF q.ip > Len(in) THEN [q EXCEPT !.eofF = TRUE]
             ELSE [q EXCEPT !.ip = @ + 1, !.tok = in[q.ip], !.eofF = (in[q.ip].t \in {"eof","err"})]
St(q, s) == [q EXCEPT !.st = s]
\* consume(next): take the next token; stop if it is EOF
Consume(q, in, s) == LET n == Nx(q, in) IN IF n.tok.t = "eof" THEN St(n, "nil") ELSE St(n, s)

RECURSIVE EquValue(_, _)
\* (a comment after the value is not part of it: repair of D26)
EquValue(q, in) == IF q.tok.t \in {"nl","eof","err"} THEN q
                   ELSE EquValue(Nx([q EXCEPT !.vb = IF q.tok.t = "cmt" THEN @ ELSE Append(@, q.tok)], in), in)
Defined(q, nm) == \E k \in 1..Len(q.syms) : q.syms[k][1] = nm
RECURSIVE Define(_, _, _)
Define(q, lb, k) == IF k > Len(lb) THEN q
                    ELSE IF Defined(q, lb[k]) THEN [St(q, "nil") EXCEPT !.err = TRUE]
                    ELSE Define([q EXCEPT !.syms = Append(@, <<lb[k], q.vb>>)], lb, k + 1)

Step(q, in) ==
  LET k == q.tok IN
  CASE q.st = "line" -> IF IsText(k) THEN [St(q, "labels") EXCEPT !.lb = << >>] ELSE St(q, "consumeLine")
    [] q.st = "labels" ->
         IF IsText(k) THEN
            IF IsPseudo(k) THEN
               CASE k.t = "equ" -> Consume([q EXCEPT !.vb = << >>], in, "equValue")
                 [] k.t = "for" -> [St(q, "nil") EXCEPT !.forSeen = TRUE]
                 [] k.t = "end" -> St(q, "nil")
                 [] OTHER -> St(q, "consumeLine")
            ELSE IF k.t = "op" THEN St(q, "consumeLine")
            ELSE Consume([q EXCEPT !.lb = Append(@, k.v)], in, "labels")
         ELSE IF k.t \in {"cmt","nl","colon"} THEN Consume(q, in, "labels")      \* the colon after a label is skipped (repair of D27)
         ELSE IF k.t = "eof" THEN St(q, "nil")
         ELSE St(q, "consumeLine")
    [] q.st = "consumeLine" ->
         IF k.t = "nl" THEN Consume(q, in, "line")
         ELSE IF k.t \in {"err","eof"} THEN St(q, "nil")
         ELSE Consume(q, in, "consumeLine")
    [] q.st = "equValue" ->
         LET v == EquValue(q, in)
             d == Define(v, v.lb, 1)
         IN IF d.st = "nil" THEN d ELSE Consume([d EXCEPT !.vb = << >>, !.lb = << >>], in, "line")

RECURSIVE RunScan(_, _)
RunScan(q, in) == IF q.st = "nil" THEN q ELSE RunScan(Step(q, in), in)
Q0 == [st |-> "line", ip |-> 1, tok |-> T("eof",0), eofF |-> FALSE, lb |-> << >>, vb |-> << >>, syms |-> << >>, forSeen |-> FALSE, err |-> FALSE]
Scan(in) == LET r == RunScan(Nx(Q0, in), in) IN [syms |-> r.syms, forSeen |-> r.forSeen, err |-> r.err]

Inputs(m) == UNION { [1..n -> Alphabet] : n \in 0..m }
VARIABLE in
Init == \E s \in Inputs(L), e \in Term : in = s \o <<e>>
Next == UNCHANGED in
\* a redefinition is the only error; definitions before the first FOR are all collected
ErrIffRedefined == LET r == Scan(in) IN r.err => \E i, j \in 1..Len(in) : i # j /\ in[i] = in[j] /\ in[i].t = "lbl"
Emit == EMIT => PrintT(<<"CASE", ToJson([in |-> in, out |-> Scan(in)])>>)
=============================================================================
