CONSTANTS
  Sizes = {1, 2, 3, 4}
  Vals = {1, 2, 3}
  EMIT = TRUE
INIT Init
NEXT Next
VIEW view
INVARIANTS Refines Bounded LastOK Emit
CHECK_DEADLOCK FALSE
