------------------------------ MODULE MARSApi ------------------------------
(* Prototype: API-level simulator state machine (fixed semantics) with call history *)
EXTENDS MARSCore, TLC
CONSTANTS M, P, MAXC, DEPTH, MAXW

cfg == [M |-> M, RL |-> M, WL |-> M]
Blank == [op |-> "DAT", mod |-> "F", am |-> "$", a |-> 0, bm |-> "$", b |-> 0]
I(op, mod, am, a, bm, b) == [op |-> op, mod |-> mod, am |-> am, a |-> a, bm |-> bm, b |-> b]
WPool == << [code |-> << I("MOV","I","$",0,"$",1) >>, start |-> 0],
            [code |-> << I("DAT","F","#",0,"#",0) >>, start |-> 0],
            [code |-> << I("SPL","B","$",0,"<",1), I("JMP","B","$",M-1,"$",0) >>, start |-> 1] >>
Offs == {0, M-1, M, 2*M+3}

VARIABLES core, wd, ws, wq, cycle, living, hist, last
vars == <<core, wd, ws, wq, cycle, living, hist, last>>
view == <<core, wd, ws, wq, cycle, living, hist>>
sview == <<core, wd, ws, wq, cycle, living>>
N == Len(wd)
Cap(s) == IF Len(s) > P THEN SubSeq(s, 1, P) ELSE s
InProgress == cycle < MAXC /\ ((N = 1 /\ living = 1) \/ (N > 1 /\ living >= 2))

Init == /\ core = [a \in 0..M-1 |-> Blank] /\ wd = << >> /\ ws = << >> /\ wq = << >>
        /\ cycle = 0 /\ living = 0 /\ hist = << >> /\ last = "new"

Add(k) == /\ N < MAXW
          /\ wd' = Append(wd, WPool[k]) /\ ws' = Append(ws, "added") /\ wq' = Append(wq, << >>)
          /\ hist' = Append(hist, <<"add", k>>) /\ last' = "ok"
          /\ UNCHANGED <<core, cycle, living>>
Spawn(i, off) ==
  /\ hist' = Append(hist, <<"spawn", i, off>>)
  /\ IF i < 0 \/ i >= N THEN last' = "err-index" /\ UNCHANGED <<core, wd, ws, wq, cycle, living>>
     ELSE IF ws[i+1] = "alive" THEN last' = "err-alive" /\ UNCHANGED <<core, wd, ws, wq, cycle, living>>
     ELSE LET c == wd[i+1].code IN
          /\ core' = [a \in 0..M-1 |->
                        IF \E k \in 1..Len(c) : (off + k - 1) % M = a
                        THEN c[CHOOSE k \in 1..Len(c) : (off + k - 1) % M = a /\ \A k2 \in 1..Len(c) : (off + k2 - 1) % M = a => k2 <= k]
                        ELSE core[a]]
          /\ wq' = [wq EXCEPT ![i+1] = << (off + wd[i+1].start) % M >>]
          /\ ws' = [ws EXCEPT ![i+1] = "alive"] /\ living' = living + 1 /\ last' = "ok"
          /\ UNCHANGED <<wd, cycle>>
RECURSIVE Cyc(_, _)
Cyc(i, st) ==
  IF i > Len(st.ws) THEN [st EXCEPT !.cycle = @ + 1]
  ELSE IF st.ws[i] # "alive" THEN Cyc(i + 1, st)
  ELSE LET pc == Head(st.wq[i])
           r  == ExecTask(st.core, pc, cfg)
           nq == Cap(Tail(st.wq[i]) \o r.push)
           dead == nq = << >>
           st2 == [st EXCEPT !.core = r.core, !.wq[i] = nq, !.ws[i] = IF dead THEN "dead" ELSE "alive",
                             !.living = IF dead THEN @ - 1 ELSE @]
       IN IF dead /\ Len(st.ws) > 1 /\ st2.living = 1 THEN st2 ELSE Cyc(i + 1, st2)
S0 == [core |-> core, ws |-> ws, wq |-> wq, cycle |-> cycle, living |-> living]
Prog(s) == s.cycle < MAXC /\ ((N = 1 /\ s.living = 1) \/ (N > 1 /\ s.living >= 2))
RECURSIVE RunAll(_)
RunAll(s) == IF Prog(s) THEN RunAll(Cyc(1, s)) ELSE s
Apply(s) == /\ core' = s.core /\ ws' = s.ws /\ wq' = s.wq /\ cycle' = s.cycle /\ living' = s.living
RunCycle == /\ hist' = Append(hist, <<"runcycle">>) /\ UNCHANGED wd
            /\ IF InProgress THEN Apply(Cyc(1, S0)) /\ last' = "ran"
               ELSE UNCHANGED <<core, ws, wq, cycle, living>> /\ last' = "noop"
Run == /\ hist' = Append(hist, <<"run">>) /\ UNCHANGED wd
       /\ Apply(RunAll(S0)) /\ last' = IF N = 0 THEN "nil" ELSE "flags"
Reset == /\ hist' = Append(hist, <<"reset">>) /\ UNCHANGED wd
         /\ core' = [a \in 0..M-1 |-> Blank] /\ ws' = [i \in 1..N |-> "added"]
         /\ wq' = [i \in 1..N |-> << >>] /\ cycle' = 0 /\ living' = 0 /\ last' = "ok"
Next == /\ Len(hist) < DEPTH
        /\ \/ \E k \in 1..Len(WPool) : Add(k)
           \/ \E i \in -1..N+1, off \in Offs : Spawn(i, off)
           \/ RunCycle \/ Run \/ Reset
Safe == /\ \A i \in 1..N : Len(wq[i]) <= P /\ ((ws[i] = "alive") <=> (wq[i] # << >>))
        /\ living = Cardinality({i \in 1..N : ws[i] = "alive"}) /\ cycle <= MAXC
=============================================================================
