INIT Init
NEXT Next
CONSTANTS
  M = 5
  MaxW = 3
  Ps = {1, 2, 3}
  Cs = {6}
  PoolN = 16
INVARIANTS Safe RefAgree CycleProps RunIsStepping RotInv EvProps
CHECK_DEADLOCK FALSE
