------------------------------ MODULE Codec ------------------------------
(* Decoding of the integer tuples used in the ndjson traces (harness/enc.go). *)
EXTENDS MARSCore
\* The product y * x reduced modulo M without leaving 32 bits (M < 2^30): shift-and-add over the binary digits of x.  Installed over MARSCore!MulMod
\* by the configuration files (CONSTANT MulMod <- MulModTLC); equal to it on every argument (TLC checks the assumption MulAgree below at every start).
RECURSIVE MulModTLC(_, _, _)
MulModTLC(y, x, M) ==
  IF x = 0 THEN 0
  ELSE LET h == MulModTLC(y, x \div 2, M)
           d == (h + h) % M
       IN IF x % 2 = 1 THEN (d + (y % M)) % M ELSE d
ASSUME MulAgree == \A M \in 1..24 : \A y, x \in 0..(M + 3) : MulModTLC(y, x, M) = (y * x) % M
OpN  == <<"DAT","MOV","ADD","SUB","MUL","DIV","MOD","CMP","SEQ","SNE","SLT","JMP","JMZ","JMN","DJN","SPL","NOP">>
ModN == <<"F","A","B","AB","BA","X","I">>
AmN  == <<"$","#","*","@","{","<","}",">">>
\* a recorded instruction whose constants are outside the data model decodes to op "???"
Name(tab, k) == IF k >= 0 /\ k < Len(tab) THEN tab[k + 1] ELSE "???"
DecIns(t) == [op |-> Name(OpN, t[1]), mod |-> Name(ModN, t[2]), am |-> Name(AmN, t[3]), a |-> t[4],
              bm |-> Name(AmN, t[5]), b |-> t[6]]
DecCore(s) == [i \in 0..Len(s) - 1 |-> DecIns(s[i + 1])]
DecCode(s) == [i \in 1..Len(s) |-> DecIns(s[i])]
\* apply a recorded diff <<addr, ins>>* to a core
RECURSIVE ApplyDiff(_, _, _)
ApplyDiff(core, d, k) == IF k > Len(d) THEN core
                         ELSE ApplyDiff([core EXCEPT ![d[k][1]] = DecIns(d[k][2])], d, k + 1)
DiffAddrs(d) == {d[k][1] : k \in 1..Len(d)}
Cap(q, p) == IF Len(q) > p THEN SubSeq(q, 1, p) ELSE q
WellFormedIns(i, M) == i.op \in Ops /\ i.mod \in Mods /\ i.am \in Modes /\ i.bm \in Modes
                       /\ i.a \in 0..M-1 /\ i.b \in 0..M-1
=============================================================================
