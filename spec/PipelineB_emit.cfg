CONSTANTS
  L = 3
  FIXED = TRUE
  FAMILY = "block"
  EMIT = TRUE
SPECIFICATION Spec
INVARIANTS NoLeak Shape Emit
CHECK_DEADLOCK FALSE
