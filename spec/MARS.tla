------------------------------ MODULE MARS ------------------------------
(***************************************************************************)
(* The simulator as a state machine, one operator per public call of the   *)
(* Simulator interface.  Purely functional over a state record S so that    *)
(* the same definitions serve the exhaustive models (MC_Battle, MC_API),    *)
(* the trace specifications (BattleTrace) and the case generators.          *)
(*                                                                          *)
(* S = [M, P, C, RL, WL,            configuration (core size, process limit,*)
(*                                   cycle limit, read/write limits)         *)
(*      core,                        0..M-1 -> instruction                  *)
(*      wd,                          sequence of [code, start] - the         *)
(*                                   simulator's PRIVATE copies             *)
(*      ws,                          sequence of "added" | "alive" | "dead" *)
(*      wq,                          sequence of process queues (sequences) *)
(*      cycle, living]                                                      *)
(* Warriors are numbered 0..N-1 in the API and 1..N in the sequences.       *)
(***************************************************************************)
EXTENDS MARSCore

N(S) == Len(S.wd)
CapQ(q, p) == IF Len(q) > p THEN SubSeq(q, 1, p) ELSE q

\* config.go:Validate, as documented: what NewSimulator must accept/refuse
ValidConfig(c) == /\ c.M >= 3 /\ c.P >= 1 /\ c.RL >= 1 /\ c.WL >= 1 /\ c.C >= 1
                  /\ c.L <= c.M /\ c.L + c.D <= c.M

\* a read or write limit of the core size or more is no limit (repair of D31: such limits were folded with unsigned wrap-around)
NewState(c) == [M |-> c.M, P |-> c.P, C |-> c.C, RL |-> IF c.RL > c.M THEN c.M ELSE c.RL, WL |-> IF c.WL > c.M THEN c.M ELSE c.WL,
                core |-> [a \in 0..c.M-1 |-> Blank],
                wd |-> << >>, ws |-> << >>, wq |-> << >>, cycle |-> 0, living |-> 0]

\* AddWarrior: the simulator takes a copy
AddW(S, w) == [S EXCEPT !.wd = Append(@, w), !.ws = Append(@, "added"), !.wq = Append(@, << >>)]

\* load code[k] at (off + k - 1) % M; later cells win when the code is longer than the core
RECURSIVE LoadCode(_, _, _, _, _)
LoadCode(core, code, off, M, k) ==
  IF k > Len(code) THEN core
  ELSE LoadCode([core EXCEPT ![(off + k - 1) % M] = code[k]], code, off, M, k + 1)

\* SpawnWarrior(i, off): err is "index", "alive" or "" ; ev = the spawn report
SpawnW(S, i, off) ==
  IF i < 0 \/ i >= N(S) THEN [S |-> S, err |-> "index", ev |-> << >>]
  ELSE IF S.ws[i+1] = "alive" THEN [S |-> S, err |-> "alive", ev |-> << >>]
  ELSE LET w == S.wd[i+1] IN
       [S |-> [S EXCEPT !.core = LoadCode(S.core, w.code, off % S.M, S.M, 1),
                        !.wq[i+1] = << (off + w.start) % S.M >>,
                        !.ws[i+1] = "alive",
                        !.living = @ + 1],
        err |-> "", ev |-> << <<"Spawn", i, off % S.M>> >>]

\* A battle is in progress: not at the cycle limit, and either a lone living warrior
\* or at least two living ones among several.
InProgress(S) == /\ S.cycle < S.C
                 /\ \/ N(S) = 1 /\ S.living = 1
                    \/ N(S) > 1 /\ S.living >= 2

\* Deliberately unspecified corner (DESIGN.md 4.2): several warriors added, exactly one
\* alive and none dead yet (a battle that was only partially started).  The code may
\* treat it as decided (no-op) or step the lone warrior.
PartialStart(S) == /\ S.cycle < S.C /\ N(S) > 1 /\ S.living = 1
                   /\ \A k \in 1..N(S) : S.ws[k] # "dead"

\* One cycle: every living warrior in loading order executes one task from the front of
\* its queue; pushes go to the back, capped at P; a warrior dies iff its queue is empty;
\* early return (cycle not counted) when a death leaves exactly one survivor among several.
\* acc = [S, pops, ev, early]
RECURSIVE Cyc(_, _)
Cyc(i, acc) ==
  LET S == acc.S IN
  IF i > N(S) THEN [acc EXCEPT !.S.cycle = @ + 1]
  ELSE IF S.ws[i] # "alive" THEN Cyc(i + 1, acc)
  ELSE LET pc   == Head(S.wq[i])
           r    == ExecTask(S.core, pc, S)
           nq   == CapQ(Tail(S.wq[i]) \o r.push, S.P)
           dead == nq = << >>
           S2   == [S EXCEPT !.core = r.core, !.wq[i] = nq,
                             !.ws[i] = IF dead THEN "dead" ELSE "alive",
                             !.living = IF dead THEN @ - 1 ELSE @]
           tev  == << <<"Pop", i - 1, pc>> >>
                   \o [k \in 1..Len(r.ev) |-> <<r.ev[k][1], i - 1, r.ev[k][2]>>]
                   \o (IF dead THEN << <<"Die", i - 1, pc>> >> ELSE << >>)
           acc2 == [S |-> S2, pops |-> Append(acc.pops, <<i - 1, pc>>), ev |-> acc.ev \o tev,
                    tasks |-> Append(acc.tasks, [w |-> i - 1, pc |-> pc, ev |-> r.ev, dead |-> dead, push |-> r.push,
                                                  op |-> S.core[pc].op, wab |-> r.wab, reads |-> r.reads]),
                    early |-> FALSE]
       IN IF dead /\ N(S) > 1 /\ S2.living = 1 THEN [acc2 EXCEPT !.early = TRUE]
          ELSE Cyc(i + 1, acc2)

CycleW(S) == Cyc(1, [S |-> S, pops |-> << >>, ev |-> << >>, tasks |-> << >>, early |-> FALSE])

\* RunCycle as an API call: a no-op unless a battle is in progress
RunCycleW(S) == IF InProgress(S) THEN CycleW(S).S ELSE S

\* Run: iterate RunCycle while the battle is in progress
RECURSIVE RunW(_)
RunW(S) == IF InProgress(S) THEN RunW(CycleW(S).S) ELSE S
RunFlags(S) == [k \in 1..N(S) |-> S.ws[k] = "alive"]

ResetW(S) == [S EXCEPT !.core = [a \in 0..S.M-1 |-> Blank], !.cycle = 0, !.living = 0,
                       !.ws = [k \in 1..N(S) |-> "added"],
                       !.wq = [k \in 1..N(S) |-> << >>]]

\* ------------------------------------------------------------------ invariants (C04)
SafeState(S) ==
  /\ \A a \in 0..S.M-1 : S.core[a].a \in 0..S.M-1 /\ S.core[a].b \in 0..S.M-1
                         /\ S.core[a].op \in Ops /\ S.core[a].mod \in Mods
                         /\ S.core[a].am \in Modes /\ S.core[a].bm \in Modes
  /\ \A i \in 1..N(S) : /\ Len(S.wq[i]) <= S.P
                        /\ \A k \in 1..Len(S.wq[i]) : S.wq[i][k] \in 0..S.M-1
                        /\ (S.ws[i] = "alive") <=> (S.wq[i] # << >>)
  /\ S.cycle <= S.C
  /\ S.living = Cardinality({i \in 1..N(S) : S.ws[i] = "alive"})

\* ------------------------------------------------------------------ rotation (C12)
RotIns(i) == i          \* instructions hold relative addresses: unchanged by rotation
Rotate(S, k) == [S EXCEPT !.core = [a \in 0..S.M-1 |-> S.core[(a + S.M - (k % S.M)) % S.M]],
                          !.wq = [i \in 1..N(S) |-> [j \in 1..Len(S.wq[i]) |-> (S.wq[i][j] + k) % S.M]]]
=============================================================================
