CONSTANTS
  L = 4
  EMIT = TRUE
INIT Init
NEXT Next
INVARIANTS CodeLinesInOrder Emit
CHECK_DEADLOCK FALSE
