CONSTANTS
  L = 3
  EMIT = FALSE
INIT Init
NEXT Next
INVARIANTS Sound
CHECK_DEADLOCK FALSE
