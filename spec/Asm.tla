------------------------------ MODULE Asm ------------------------------
(***************************************************************************)
(* Denotation of an abstract Redcode program, computed WITHOUT gmars.      *)
(*                                                                          *)
(* p = [dialect (88|94), M, L, P, D, items]; items is a sequence of        *)
(*   [t |-> "ins", labels, op, mod, am, a, bm, b, hasb]  mod/am/bm = ""     *)
(*                                   when omitted; a, b token sequences     *)
(*   [t |-> "equ", names, toks]      textual definition                     *)
(*   [t |-> "org", toks] [t |-> "end", labels, toks] [t |-> "assert", toks] *)
(*   [t |-> "meta", k, v]            ;name ;author ;strategy comments       *)
(*   [t |-> "for", labels, ctr, count, body]     FOR/ROF block (C08)        *)
(* tokens: <<"n", v>> <<"s", name>> <<"+">> ... as in Expr.tla.             *)
(*                                                                          *)
(* Meaning(p) = [err, code, start, name, author, strategy]                  *)
(*  - labels denote (line of label - line of the referring instruction),    *)
(*    spliced as a signed number; EQU names are substituted textually to a  *)
(*    fix-point (forward uses included); predefined names from p            *)
(*  - omitted modifier / modes take the dialect's defaults (tables below,   *)
(*    written from the ICWS'94 draft and the ICWS'88 rules)                 *)
(*  - lone operand: DAT x = DAT #0, x ; others: B = $0                      *)
(*  - fields reduced into [0, M); entry point from ORG / END                *)
(***************************************************************************)
EXTENDS Expr, FiniteSets, TLC

Ops94 == {"DAT","MOV","ADD","SUB","MUL","DIV","MOD","CMP","SEQ","SNE","SLT","JMP","JMZ","JMN","DJN","SPL","NOP"}
Ops88 == {"DAT","MOV","ADD","SUB","JMP","JMZ","JMN","DJN","CMP","SLT","SPL"}
Mods94  == {"F","A","B","AB","BA","X","I"}
Modes94 == {"$","#","*","@","{","<","}",">"}
Modes88 == {"$","#","@","<"}

\* ICWS'94 draft, default modifiers (NOP: .B as pMARS and the repository's fixtures have it)
Default94(op, am, bm) ==
  CASE op = "DAT" -> "F"
    [] op \in {"MOV","SEQ","SNE","CMP"} -> IF am = "#" THEN "AB" ELSE IF bm = "#" THEN "B" ELSE "I"
    [] op \in {"ADD","SUB","MUL","DIV","MOD"} -> IF am = "#" THEN "AB" ELSE IF bm = "#" THEN "B" ELSE "F"
    [] op = "SLT" -> IF am = "#" THEN "AB" ELSE "B"
    [] op \in {"JMP","JMZ","JMN","DJN","SPL","NOP"} -> "B"
\* ICWS'88: the modifier the standard implies
Default88(op, am, bm) ==
  CASE op = "DAT" -> "F"
    [] op \in {"MOV","CMP"} -> IF am = "#" THEN "AB" ELSE "I"
    [] op \in {"ADD","SUB"} -> IF am = "#" THEN "AB" ELSE "F"
    [] op = "SLT" -> IF am = "#" THEN "AB" ELSE "B"
    [] op \in {"JMP","JMZ","JMN","DJN","SPL"} -> "B"
    [] OTHER -> "?"
\* ICWS'88 legal operand combinations (written independently; SLT with immediate B tolerated, as the suite documents)
Legal88(i) ==
  /\ i.op \in Ops88 /\ i.am \in Modes88 /\ i.bm \in Modes88
  /\ CASE i.op = "DAT" -> i.am \in {"#","<"} /\ i.bm \in {"#","<"}
       [] i.op \in {"MOV","ADD","SUB","CMP"} -> i.bm # "#"
       [] i.op = "SLT" -> TRUE
       [] i.op \in {"JMP","JMZ","JMN","DJN","SPL"} -> i.am # "#"
  /\ i.mod = Default88(i.op, i.am, i.bm)

WellFormedIns94(i, M) == i.op \in Ops94 /\ i.mod \in Mods94 /\ i.am \in Modes94 /\ i.bm \in Modes94
                         /\ i.a \in 0..M-1 /\ i.b \in 0..M-1
\* structural predicate of C06 on an assembled/loaded result
WellFormedW(code, start, M, L) ==
  /\ \A k \in 1..Len(code) : WellFormedIns94(code[k], M)
  /\ Len(code) <= L
  /\ IF Len(code) = 0 THEN start = 0 ELSE start \in 0..Len(code)-1

\* ---------------------------------------------------------------- environment
Instrs(items) == SelectSeq(items, LAMBDA it : it.t = "ins")
Pre(p) == [nm \in {"CORESIZE","MAXLENGTH","MAXPROCESSES","MINDISTANCE"} |->
             CASE nm = "CORESIZE" -> p.M [] nm = "MAXLENGTH" -> p.L [] nm = "MAXPROCESSES" -> p.P [] nm = "MINDISTANCE" -> p.D]
LabelSet(items) ==
  LET ins == Instrs(items) IN
  UNION {{<<ins[k].labels[j], k - 1>> : j \in 1..Len(ins[k].labels)} : k \in 1..Len(ins)}
  \cup UNION {{<<items[k].labels[j], Len(ins)>> : j \in 1..Len(items[k].labels)} : k \in {x \in 1..Len(items) : items[x].t = "end"}}
EquSet(items) == UNION {{<<items[k].names[j], items[k].toks>> : j \in 1..Len(items[k].names)} : k \in {x \in 1..Len(items) : items[x].t = "equ"}}
Env(p, items) ==
  LET ls == LabelSet(items)  es == EquSet(items) IN
  [pre |-> Pre(p),
   labels |-> [nm \in {d[1] : d \in ls} |-> (CHOOSE d \in ls : d[1] = nm)[2]],
   equs |-> [nm \in {d[1] : d \in es} |-> (CHOOSE d \in es : d[1] = nm)[2]]]

NumToks(v) == IF v < 0 THEN << <<"-">>, <<"n", -v>> >> ELSE << <<"n", v>> >>
\* textual substitution; `line` is the code line of the referring instruction
RECURSIVE Subst(_, _, _, _)
Subst(toks, env, line, fuel) ==
  IF toks = << >> THEN << >>
  ELSE LET h == Head(toks)
           rest == Subst(Tail(toks), env, line, fuel) IN
       IF h[1] # "s" THEN <<h>> \o rest
       ELSE IF h[2] \in DOMAIN env.equs
            THEN (IF fuel = 0 THEN << <<"err">> >> ELSE Subst(env.equs[h[2]], env, line, fuel - 1)) \o rest
       ELSE IF h[2] \in DOMAIN env.pre THEN << <<"n", env.pre[h[2]]>> >> \o rest
       ELSE IF h[2] \in DOMAIN env.labels THEN NumToks(env.labels[h[2]] - line) \o rest
       ELSE << <<"err">> >> \o rest
Value(toks, env, line) == Eval(Subst(toks, env, line, 12))

\* ---------------------------------------------------------------- one instruction
Assemble(it, env, line, p) ==
  LET d88 == p.dialect = 88
      dm  == IF d88 /\ it.op = "DAT" THEN "#" ELSE "$"
      am0 == IF it.am = "" THEN dm ELSE it.am
      bm0 == IF it.bm = "" THEN dm ELSE it.bm
      av  == Value(it.a, env, line)
      bv  == IF it.hasb THEN Value(it.b, env, line) ELSE [ok |-> TRUE, v |-> 0]
      \* lone operand
      lone == ~it.hasb
      am == IF lone /\ it.op = "DAT" THEN "#" ELSE am0
      bm == IF lone THEN (IF it.op = "DAT" THEN am0 ELSE dm) ELSE bm0
      a  == IF lone /\ it.op = "DAT" THEN 0 ELSE av.v
      b  == IF lone THEN (IF it.op = "DAT" THEN av.v ELSE 0) ELSE bv.v
      \* the '88 DAT default mode applies to the omitted B of a lone non-DAT too only via dm (never: dm = "$" then)
      mod == IF it.mod # "" THEN it.mod
             ELSE IF d88 THEN Default88(it.op, am, bm) ELSE Default94(it.op, am, bm)
      ins == [op |-> it.op, mod |-> mod, am |-> am, a |-> ModM(a, p.M), bm |-> bm, b |-> ModM(b, p.M)]
  IN [ok |-> av.ok /\ bv.ok /\ (d88 => (it.mod = "" /\ Legal88(ins))) /\ (~d88 => it.op \in Ops94),
      ins |-> ins]

\* ---------------------------------------------------------------- FOR/ROF unrolling (C08)
\* replace counter name by a number and block line-labels by private names, textually, in every token sequence
SubTok(tk, ctr, v, lbls, tag) ==
  IF tk[1] # "s" THEN tk
  ELSE IF ctr # "" /\ tk[2] = ctr THEN <<"n", v>>
  ELSE IF tk[2] \in lbls THEN <<"s", tag \o tk[2]>> ELSE tk
SubToks(toks, ctr, v, lbls, tag) == [k \in 1..Len(toks) |-> SubTok(toks[k], ctr, v, lbls, tag)]
RECURSIVE SubItem(_, _, _, _, _), SubItems(_, _, _, _, _)
SubItem(it, ctr, v, lbls, tag) ==
  CASE it.t = "ins" -> [it EXCEPT !.a = SubToks(@, ctr, v, lbls, tag), !.b = SubToks(@, ctr, v, lbls, tag)]
    [] it.t \in {"equ", "org", "end", "assert"} -> [it EXCEPT !.toks = SubToks(@, ctr, v, lbls, tag)]
    [] it.t = "for" -> [it EXCEPT !.count = SubToks(@, ctr, v, lbls, tag), !.body = SubItems(@, ctr, v, lbls, tag)]
    [] OTHER -> it
SubItems(items, ctr, v, lbls, tag) == [k \in 1..Len(items) |-> SubItem(items[k], ctr, v, lbls, tag)]

\* The block's line labels (written before the counter) refer to the first instruction the block emits.
RECURSIVE AttachLabels(_, _)
AttachLabels(items, lbls) ==
  IF lbls = << >> \/ items = << >> THEN items
  ELSE IF Head(items).t = "ins" THEN <<[Head(items) EXCEPT !.labels = lbls \o @]>> \o Tail(items)
  ELSE <<Head(items)>> \o AttachLabels(Tail(items), lbls)

RECURSIVE Unroll(_, _, _), Copies(_, _, _, _, _)
\* count expressions may use EQU names defined anywhere earlier in the (already unrolled) text
Unroll(items, p, defs) ==
  IF items = << >> THEN << >>
  ELSE LET it == Head(items) IN
       IF it.t # "for" THEN <<it>> \o Unroll(Tail(items), p, IF it.t = "equ" THEN Append(defs, it) ELSE defs)
       ELSE LET env == Env(p, defs)
                cv  == Value(it.count, env, 0)
                out == Unroll(Copies(it, 1, cv.v, p, defs), p, defs)
            IN IF ~cv.ok THEN << [t |-> "error"] >>          \* a count that cannot be evaluated: the program has no meaning
               \* labels of a block that emits no instruction: the property does not say what they name - no meaning either
               ELSE IF it.labels # << >> /\ ~\E k \in 1..Len(out) : out[k].t = "ins" THEN << [t |-> "error"] >>
               ELSE AttachLabels(out, it.labels) \o Unroll(Tail(items), p, defs \o SelectSeq(out, LAMBDA x : x.t = "equ"))
Copies(it, i, n, p, defs) ==
  IF i > n THEN << >> ELSE SubItems(it.body, it.ctr, i, {}, "") \o Copies(it, i + 1, n, p, defs)

HasFor(items) == \E k \in 1..Len(items) : items[k].t = "for"

\* ---------------------------------------------------------------- whole program
MetaOf(items, k) == LET ms == SelectSeq(items, LAMBDA it : it.t = "meta" /\ it.k = k) IN
                    IF ms = << >> THEN "" ELSE ms[Len(ms)].v
RECURSIVE Concat(_)
Concat(ss) == IF ss = << >> THEN "" ELSE Head(ss).v \o "\n" \o Concat(Tail(ss))
Meaning(p) ==
  LET items == IF HasFor(p.items) THEN Unroll(p.items, p, << >>) ELSE p.items
      env == Env(p, items)
      ins == Instrs(items)
      asm == [k \in 1..Len(ins) |-> Assemble(ins[k], env, k - 1, p)]
      asserts == SelectSeq(items, LAMBDA it : it.t = "assert")
      aok == \A k \in 1..Len(asserts) : LET v == Value(asserts[k].toks, env, 0) IN v.ok /\ v.v # 0
      orgs == SelectSeq(items, LAMBDA it : it.t = "org" \/ (it.t = "end" /\ it.toks # << >>))
      sv == IF orgs = << >> THEN [ok |-> TRUE, v |-> 0] ELSE Value(orgs[Len(orgs)].toks, env, 0)
      sok == sv.ok /\ (IF Len(ins) = 0 THEN sv.v = 0 ELSE sv.v \in 0..Len(ins)-1)
      ls == LabelSet(items)   es == EquSet(items)
      \* every symbol is defined exactly once
      uniq == /\ \A d1 \in ls, d2 \in ls : d1[1] = d2[1] => d1 = d2
              /\ \A d1 \in es, d2 \in es : d1[1] = d2[1] => d1 = d2
              /\ \A d1 \in ls, d2 \in es : d1[1] # d2[1]
      ok == (\A k \in 1..Len(items) : items[k].t # "error") /\ uniq /\ aok /\ sok /\ Len(ins) <= p.L /\ \A k \in 1..Len(ins) : asm[k].ok
  IN [err |-> ~ok, code |-> [k \in 1..Len(ins) |-> asm[k].ins], start |-> IF sok THEN sv.v ELSE 0,
      name |-> MetaOf(items, "name"), author |-> MetaOf(items, "author"),
      strategy |-> Concat(SelectSeq(items, LAMBDA it : it.t = "meta" /\ it.k = "strategy")),
      assert_failed |-> ~aok]
=============================================================================
