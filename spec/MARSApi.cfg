CONSTANTS M = 4 P = 2 MAXC = 4 DEPTH = 1000 MAXW = 3
INIT Init
NEXT Next
INVARIANT Safe
VIEW sview
CHECK_DEADLOCK FALSE
