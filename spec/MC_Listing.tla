------------------------------ MODULE MC_Listing ------------------------------
(* Spec |= property (C16): reading back the listing of any warrior yields the warrior, for every instruction form of the *)
(* dialect, fields {0, 1, M/2, M/2+1, M-1}, every entry point of a two-instruction warrior, even and odd core sizes.     *)
EXTENDS Formats, TLC
CONSTANTS Ms
VARIABLE s
Fields(M) == {0, 1 % M, M \div 2, (M \div 2 + 1) % M, M - 1}
Init == \E M \in Ms, legacy \in BOOLEAN : s = [stage |-> 0, M |-> M, legacy |-> legacy]
Next == /\ s.stage = 0
        /\ \E op \in (IF s.legacy THEN Ops88 ELSE Ops94), am \in (IF s.legacy THEN Modes88 ELSE Modes94), bm \in (IF s.legacy THEN Modes88 ELSE Modes94) :
           \E mod \in (IF s.legacy THEN {Default88(op, am, bm)} ELSE Mods94), a \in Fields(s.M), b \in Fields(s.M), st \in {0, 1} :
             s' = [stage |-> 1, M |-> s.M, legacy |-> s.legacy, start |-> st,
                   code |-> << [op |-> op, mod |-> mod, am |-> am, a |-> a, bm |-> bm, b |-> b],
                               [op |-> "DAT", mod |-> "F", am |-> "#", a |-> b, bm |-> "#", b |-> a] >>]
RoundTrip == s.stage = 1 =>
  LET r == ReadListing(ListingOf(s.code, s.start, s.legacy, s.M), s.legacy, s.M) IN
  r.ok /\ r.code = s.code /\ r.start = s.start
=============================================================================
