------------------------------ MODULE AsmTrace ------------------------------
(***************************************************************************)
(* Validation of assemblies recorded from the real CompileWarrior /         *)
(* ParseLoadFile against Asm.tla.  One TLC state per line.                  *)
(*  {"ev":"prog","p":<abstract program>,"res":[<result per rendering>..]}   *)
(*      Mode C03/C08: if the program has a meaning, every rendering         *)
(*                    assembled to exactly that meaning                     *)
(*      Mode C07:     additionally errors must agree (division by zero,     *)
(*                    failed ;assert)                                       *)
(*  {"ev":"out","dialect","M","L","res":<result>}                           *)
(*      Mode C06:     every successful result is well-formed / legal '88    *)
(* result = {"err":0|1|2,"code":[[6 ints]..],"start":n,"name","author","strategy"} *)
(***************************************************************************)
EXTENDS Asm, Json, IOUtils
Trace == ndJsonDeserialize(IOEnv.VERIF_TRACE)
Mode  == IOEnv.VERIF_MODE
OpN  == <<"DAT","MOV","ADD","SUB","MUL","DIV","MOD","CMP","SEQ","SNE","SLT","JMP","JMZ","JMN","DJN","SPL","NOP">>
ModN == <<"F","A","B","AB","BA","X","I">>
AmN  == <<"$","#","*","@","{","<","}",">">>
Name(tab, k) == IF k >= 0 /\ k < Len(tab) THEN tab[k + 1] ELSE "???"
DecIns(t) == [op |-> Name(OpN, t[1]), mod |-> Name(ModN, t[2]), am |-> Name(AmN, t[3]), a |-> t[4],
              bm |-> Name(AmN, t[5]), b |-> t[6]]
DecCode(s) == [i \in 1..Len(s) |-> DecIns(s[i])]

SameAs(r, m, meta) ==
  /\ r.err = 0
  /\ DecCode(r.code) = m.code
  /\ r.start = m.start
  /\ meta => (r.name = m.name /\ r.author = m.author /\ r.strategy = m.strategy)

CheckProg(e) ==
  LET m == Meaning(e.p) IN
  /\ \A k \in 1..Len(e.res) : e.res[k].err # 2                                  \* never a panic
  /\ ~m.err => \A k \in 1..Len(e.res) : SameAs(e.res[k], m, "meta" \in DOMAIN e)
  /\ (Mode = "C07" /\ m.err) => \A k \in 1..Len(e.res) : e.res[k].err = 1       \* div by zero / failed assert: an error

CheckOut(e) ==
  e.res.err = 0 =>
    LET code == DecCode(e.res.code) IN
    /\ WellFormedW(code, e.res.start, e.M, e.L)
    /\ e.dialect = 88 => \A k \in 1..Len(code) : Legal88(code[k])

Check(e) == CASE e.ev = "prog" -> CheckProg(e) [] e.ev = "out" -> CheckOut(e) [] OTHER -> FALSE
Explain(e) == IF e.ev = "prog" THEN Meaning(e.p) ELSE "n/a"

VARIABLE l
Init == l = 1
Next == /\ l <= Len(Trace)
        /\ l' = l + 1
        /\ IF Check(Trace[l]) THEN (Trace[l].ev = "prog" /\ Meaning(Trace[l].p).err) => PrintT(<<"NOMEANING", l>>)
           ELSE /\ PrintT(<<"REJECT", l>>)
                /\ ("VERIF_EXPLAIN" \in DOMAIN IOEnv) => PrintT(<<"EXPECT", l, Explain(Trace[l])>>)
Accepted == TLCGet("stats").diameter - 1 = Len(Trace)
=============================================================================
