------------------------------ MODULE AsmTrace ------------------------------
(***************************************************************************)
(* Validation of assemblies recorded from the real CompileWarrior /         *)
(* ParseLoadFile against Asm.tla.  One TLC state per line.                  *)
(*  {"ev":"prog","p":<abstract program>,"res":[<result per rendering>..]}   *)
(*      Mode C03/C08: if the program has a meaning, every rendering         *)
(*                    assembled to exactly that meaning                     *)
(*      Mode C07:     additionally errors must agree (division by zero,     *)
(*                    failed ;assert)                                       *)
(*  {"ev":"out","dialect","M","L","res":<result>}                           *)
(*      Mode C06:     every successful result is well-formed / legal '88    *)
(* result = {"err":0|1|2,"code":[[6 ints]..],"start":n,"name","author","strategy"} *)
(***************************************************************************)
EXTENDS Asm, Json, IOUtils
Trace == ndJsonDeserialize(IOEnv.VERIF_TRACE)
Mode  == IOEnv.VERIF_MODE
OpN  == <<"DAT","MOV","ADD","SUB","MUL","DIV","MOD","CMP","SEQ","SNE","SLT","JMP","JMZ","JMN","DJN","SPL","NOP">>
ModN == <<"F","A","B","AB","BA","X","I">>
AmN  == <<"$","#","*","@","{","<","}",">">>
Name(tab, k) == IF k >= 0 /\ k < Len(tab) THEN tab[k + 1] ELSE "???"
DecIns(t) == [op |-> Name(OpN, t[1]), mod |-> Name(ModN, t[2]), am |-> Name(AmN, t[3]), a |-> t[4],
              bm |-> Name(AmN, t[5]), b |-> t[6]]
DecCode(s) == [i \in 1..Len(s) |-> DecIns(s[i])]

SameAs(r, m, meta) ==
  /\ r.err = 0
  /\ DecCode(r.code) = m.code
  /\ r.start = m.start
  /\ meta => (r.name = m.name /\ r.author = m.author /\ r.strategy = m.strategy)

CheckProg(e) ==
  LET m == Meaning(e.p) IN
  /\ \A k \in 1..Len(e.res) : e.res[k].err # 2                                  \* never a panic
  /\ ~m.err => \A k \in 1..Len(e.res) : SameAs(e.res[k], m, "meta" \in DOMAIN e)
  /\ (Mode = "C07" /\ m.err) => \A k \in 1..Len(e.res) : e.res[k].err = 1       \* div by zero / failed assert: an error

CheckOut(e) ==
  e.res.err = 0 =>
    LET code == DecCode(e.res.code) IN
    /\ WellFormedW(code, e.res.start, e.M, e.L)
    /\ e.dialect = 88 => \A k \in 1..Len(code) : Legal88(code[k])

\* ---------------------------------------------------------------- termination (C05)
\* terminal-state predicate of the assembly pipeline for ANY input: it returned (no panic, not hung) within the
\* per-case deadline, with an error and nothing else or with a warrior, and left no producer goroutine behind
Terminal(e) ==
  /\ e.outcome \in {"ok", "err"}
  /\ e.leak = 0
  /\ e.outcome = "err" => e.empty = 1
  /\ e.outcome = "ok" => e.codenil = 0
  /\ e.us <= 10000000
\* EQU reference graphs: edges[i][j] = 1 iff the body of name i mentions name j; the program uses name 1 at `site`
Reach(edges, n) ==
  LET step(R) == R \cup {<<x, z>> \in (1..n) \X (1..n) : \E y \in 1..n : <<x, y>> \in R /\ <<y, z>> \in R}
      R1 == {<<x, y>> \in (1..n) \X (1..n) : edges[x][y] = 1}
  IN step(step(R1))
CheckEquGraph(e) ==
  LET R == Reach(e.edges, e.n)
      onCycle(x) == <<x, x>> \in R
      used == IF e.site = "unused" THEN {} ELSE {1} \cup {y \in 1..e.n : <<1, y>> \in R}
      usedCyclic == \E x \in used : onCycle(x)
      anyCycle == \E x \in 1..e.n : onCycle(x)
  IN /\ Terminal(e)
     \* (a cyclic definition that is used has no meaning; gmars answers with an error, but no listed property says what an
     \*  ill-formed program must produce beyond C05's terminal-state predicate above, so that is not demanded here)
     /\ ~anyCycle => e.outcome = "ok"            \* acyclic definitions always resolve
Check(e) == CASE e.ev = "prog" -> CheckProg(e) [] e.ev = "out" -> CheckOut(e)
              [] e.ev = "fuzz" -> Terminal(e) [] e.ev = "equgraph" -> CheckEquGraph(e) [] OTHER -> FALSE
Explain(e) == IF e.ev = "prog" THEN Meaning(e.p) ELSE "n/a"

VARIABLE l
Init == l = 1
Next == /\ l <= Len(Trace)
        /\ l' = l + 1
        /\ IF Check(Trace[l]) THEN (Trace[l].ev = "prog" /\ Meaning(Trace[l].p).err) => PrintT(<<"NOMEANING", l>>)
           ELSE /\ PrintT(<<"REJECT", l>>)
                /\ ("VERIF_EXPLAIN" \in DOMAIN IOEnv) => PrintT(<<"EXPECT", l, Explain(Trace[l])>>)
Accepted == TLCGet("stats").diameter - 1 = Len(Trace)
=============================================================================
