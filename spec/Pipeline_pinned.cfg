CONSTANTS
  L = 2
  FIXED = FALSE
  FAMILY = "all"
  EMIT = FALSE
SPECIFICATION Spec
INVARIANTS NoLeak Shape
PROPERTY Terminates
CHECK_DEADLOCK FALSE
