CONSTANTS
  Sizes = {1, 2, 3, 4}
  Vals = {1, 2, 3}
  EMIT = FALSE
INIT Init
NEXT Next
VIEW view
INVARIANTS Refines Bounded LastOK
CHECK_DEADLOCK FALSE
