CONSTANTS M = 5 P = 3 MAXC = 6
INIT Init
NEXT Next
INVARIANT Inv
CHECK_DEADLOCK FALSE
