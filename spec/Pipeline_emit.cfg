CONSTANTS
  L = 4
  FIXED = TRUE
  FAMILY = "all"
  EMIT = TRUE
SPECIFICATION Spec
INVARIANTS NoLeak Shape Emit
CHECK_DEADLOCK FALSE
