------------------------------ MODULE MC_Step ------------------------------
(***************************************************************************)
(* Spec |= property, small scope, exhaustive: every one of the 7616         *)
(* instruction forms at pc with every (a,b), every limit pair (or a few),   *)
(* neighbours from a data pool, on cores of the sizes in Ms.                *)
(* Checked of the reference interpreter itself:                             *)
(*   TypeOK      result is a well-formed core, pushes are PCs < M, <= 2     *)
(*   WriteBound  changed cells within floor(WL/2) of pc            (C11)    *)
(*   ReadBound   successors are pc+1, pc+2 or within floor(RL/2)   (C11)    *)
(*   NoLimit     RL = WL = M  =>  ExecTask = ExecTaskNoFold        (C11)    *)
(*   EvCovers    changed cells are named by Write/Dec/Inc events   (C15)    *)
(*   EvValid     every event address is < M                        (C15)    *)
(*   DeathIffNoPush  a task queues nothing iff DAT or division by 0 (C01)   *)
(***************************************************************************)
EXTENDS MARSCore, TLC
CONSTANTS Ms, AllLimits, PoolN

OpsQ  == Ops
DataPool(M) == LET all == << Blank, Ins("DAT","F","#",1,"<",M-1), Ins("JMP","B","@",M-1,"}",1),
                             Ins("MOV","I","*",1,"{",2 % M) >>
               IN {all[i] : i \in 1..PoolN}
Limits(M) == IF AllLimits THEN (1..M) \X (1..M) ELSE {<<M,M>>, <<1,1>>, <<2,3>>, <<M,1>>, <<1,M>>}

VARIABLE s
\* two stages so that TLC's workers share the enumeration: Init picks (M, limits, opcode),
\* Next fans out over modifier, modes, fields and neighbours.
Init == \E M \in Ms : \E lim \in Limits(M) : \E op \in Ops :
           s = [stage |-> 0, M |-> M, RL |-> lim[1], WL |-> lim[2], op |-> op]
Next == /\ s.stage = 0
        /\ \E mod \in Mods, am \in Modes, bm \in Modes : \E a \in 0..s.M-1, b \in 0..s.M-1 :
           \E n1 \in DataPool(s.M), n2 \in DataPool(s.M) :
             s' = [stage |-> 1, M |-> s.M, RL |-> s.RL, WL |-> s.WL, pc |-> 1,
                   core |-> [i \in 0..s.M-1 |-> IF i = 1 THEN Ins(s.op, mod, am, a, bm, b)
                                              ELSE IF i = 0 THEN n1 ELSE IF i = 2 THEN n2 ELSE Blank]]

WF(i, M) == i.op \in Ops /\ i.mod \in Mods /\ i.am \in Modes /\ i.bm \in Modes /\ i.a \in 0..M-1 /\ i.b \in 0..M-1
Props(R) ==
  LET M == s.M
      Changed == {a \in 0..M-1 : R.core[a] # s.core[a]}
  IN \* TypeOK
     /\ DOMAIN R.core = 0..M-1
     /\ \A a \in 0..M-1 : WF(R.core[a], M)
     /\ Len(R.push) <= 2 /\ \A k \in 1..Len(R.push) : R.push[k] \in 0..M-1
     \* WriteBound, ReadBound, NoLimit (C11)
     /\ \A a \in Changed : CDist(a, s.pc, M) <= s.WL \div 2
     /\ \A k \in 1..Len(R.push) : \/ R.push[k] \in {(s.pc + 1) % M, (s.pc + 2) % M}
                                   \/ CDist(R.push[k], s.pc, M) <= s.RL \div 2
     /\ (s.RL = M /\ s.WL = M) =>
           LET N == ExecTaskNoFold(s.core, s.pc, M) IN N.core = R.core /\ N.push = R.push /\ N.ev = R.ev
     \* EvCovers, EvValid (C15)
     /\ Changed \subseteq EvTouched(R.ev)
     /\ \A k \in 1..Len(R.ev) : R.ev[k][2] \in 0..M-1
     \* DeathIffNoPush, SplOrder (C01/C02)
     /\ (R.push = << >>) <=>
            (\/ s.core[s.pc].op = "DAT"
             \/ s.core[s.pc].op \in {"DIV","MOD"} /\ \E k \in 1..Len(R.ev) : R.ev[k][1] = "Term")
     /\ s.core[s.pc].op = "SPL" => Len(R.push) = 2 /\ R.push[1] = (s.pc + 1) % M
StepProps == s.stage = 1 => Props(ExecTask(s.core, s.pc, s))

\* Anti-vacuity probes: each of these "invariants" MUST be violated (TLC exit 12) - the violation is a witness that the
\* antecedents of the bounds above are reachable in this model (a write exactly at the write distance, a jump exactly at
\* the read distance, a step on which folding changes the outcome).
VacWrite == ~(s.stage = 1 /\ s.WL < s.M /\ s.WL \div 2 > 0 /\
              LET R == ExecTask(s.core, s.pc, s) IN
              \E a \in 0..s.M-1 : R.core[a] # s.core[a] /\ CDist(a, s.pc, s.M) = s.WL \div 2)
VacRead  == ~(s.stage = 1 /\ s.RL < s.M /\ s.RL \div 2 > 0 /\
              LET R == ExecTask(s.core, s.pc, s) IN
              \E k \in 1..Len(R.push) : R.push[k] \notin {(s.pc + 1) % s.M, (s.pc + 2) % s.M} /\ CDist(R.push[k], s.pc, s.M) = s.RL \div 2)
VacFold  == ~(s.stage = 1 /\ (s.RL < s.M \/ s.WL < s.M) /\
              LET R == ExecTask(s.core, s.pc, s)  N == ExecTaskNoFold(s.core, s.pc, s.M) IN R.core # N.core \/ R.push # N.push)
=============================================================================
