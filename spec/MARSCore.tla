------------------------------ MODULE MARSCore ------------------------------
(***************************************************************************)
(* One task of an ICWS'94 MARS: the reference interpreter of the draft      *)
(* standard (section 5.6, EMI94.c), extended with the A-number indirect     *)
(* modes * { } exactly like the B-number modes but through the A field of   *)
(* the intermediate cell.  Written from the draft, NOT from gmars.          *)
(*                                                                          *)
(* An instruction is a record [op, mod, am, a, bm, b]; a core is a function *)
(* 0..M-1 -> instruction; cfg is a record with at least M, RL, WL.          *)
(*                                                                          *)
(* ExecTask(core, pc, cfg) = [core, push, ev]                               *)
(*   core : the core after the task                                         *)
(*   push : the 0, 1 or 2 program counters to append to the queue, in order *)
(*   ev   : the reference event list of the task (without the leading Pop): *)
(*          Dec(A-predec)? Inc(A-postinc)? Dec(B-predec)? Inc(B-postinc)?   *)
(*          then Write(WAB) | Dec(WAB) | Read,Read | Term(pc)               *)
(***************************************************************************)
EXTENDS Integers, Sequences, FiniteSets

Ops   == {"DAT","MOV","ADD","SUB","MUL","DIV","MOD","CMP","SEQ","SNE","SLT","JMP","JMZ","JMN","DJN","SPL","NOP"}
Mods  == {"F","A","B","AB","BA","X","I"}
Modes == {"$","#","*","@","{","<","}",">"}

Ins(op, mod, am, a, bm, b) == [op |-> op, mod |-> mod, am |-> am, a |-> a, bm |-> bm, b |-> b]
Blank == Ins("DAT", "F", "$", 0, "$", 0)            \* the initial content of every cell

\* Read/write limit folding (draft 5.6: "fold"): result in [0, M)
Fold(p, lim, M) == LET r == p % lim IN IF r > (lim \div 2) THEN r + (M - lim) ELSE r

Field(ins, f)       == IF f = "A" THEN ins.a ELSE ins.b
SetField(ins, f, v) == IF f = "A" THEN [ins EXCEPT !.a = v] ELSE [ins EXCEPT !.b = v]
IndField(mode) == IF mode \in {"*","{","}"} THEN "A" ELSE "B"
IsPre(mode)    == mode \in {"{","<"}
IsPost(mode)   == mode \in {"}",">"}

(* Operand evaluation.  rp / wp are the read / write pointers RELATIVE to pc;   *)
(* pip = absolute address to post-increment (or -1); dec = absolute address that *)
(* was pre-decremented (or -1); f = the field used for indirection.             *)
OperandG(core, pc, mode, val, M, FR(_), FW(_)) ==
  IF mode = "#" THEN [core |-> core, rp |-> 0, wp |-> 0, pip |-> -1, f |-> "B", dec |-> -1, pr |-> {}]
  ELSE LET rp0 == FR(val)
           wp0 == FW(val) IN
    IF mode = "$" THEN [core |-> core, rp |-> rp0, wp |-> wp0, pip |-> -1, f |-> "B", dec |-> -1, pr |-> {}]
    ELSE LET f  == IndField(mode)
             da == (pc + wp0) % M                       \* side effects go through the WRITE pointer
             c1 == IF IsPre(mode)
                   THEN [core EXCEPT ![da] = SetField(@, f, (Field(@, f) + M - 1) % M)]
                   ELSE core
             rp == FR(rp0 + Field(c1[(pc + rp0) % M], f))
             wp == FW(wp0 + Field(c1[(pc + wp0) % M], f))
         IN [core |-> c1, rp |-> rp, wp |-> wp,
             pip |-> IF IsPost(mode) THEN da ELSE -1, f |-> f,
             dec |-> IF IsPre(mode) THEN da ELSE -1,
             pr |-> {(pc + rp0) % M, da}]                \* the pointer cells the operand evaluation reads

PostInc(core, o, M) ==
  IF o.pip = -1 THEN core
  ELSE [core EXCEPT ![o.pip] = SetField(@, o.f, (Field(@, o.f) + 1) % M)]

\* <<destination field, field taken from IRA, field taken from IRB>> selected by a modifier
Pairs(mod) ==
  CASE mod = "A"  -> << <<"A","A","A">> >>
    [] mod = "B"  -> << <<"B","B","B">> >>
    [] mod = "AB" -> << <<"B","A","B">> >>
    [] mod = "BA" -> << <<"A","B","A">> >>
    [] mod \in {"F","I"} -> << <<"A","A","A">>, <<"B","B","B">> >>
    [] mod = "X"  -> << <<"B","A","B">>, <<"A","B","A">> >>

\* The product of two fields reduced into the core.  TLC evaluates integers in 32 bits, so the trace specifications override this
\* definition (cfg: MulMod <- MulModTLC) with a shift-and-add evaluation of the same function for cores above 46 340 cells.
MulMod(y, x, M) == (y * x) % M

Arith(op, x, y, M) ==   \* y op x   (IRB op IRA); DIV/MOD only called with x # 0
  CASE op = "ADD" -> (y + x) % M
    [] op = "SUB" -> (y + M - x) % M
    [] op = "MUL" -> MulMod(y, x, M)
    [] op = "DIV" -> y \div x
    [] op = "MOD" -> y % x

ExecTaskG(core0, pc, M, FR(_), FW(_)) ==
  LET IR  == core0[pc]                                  \* a copy, taken before anything changes
      oa  == OperandG(core0, pc, IR.am, IR.a, M, FR, FW)
      IRA == oa.core[(pc + oa.rp) % M]
      c2  == PostInc(oa.core, oa, M)                    \* A post-increment before B is evaluated
      ob  == OperandG(c2, pc, IR.bm, IR.b, M, FR, FW)
      IRB == ob.core[(pc + ob.rp) % M]
      c4  == PostInc(ob.core, ob, M)
      WAB == (pc + ob.wp) % M
      RAB == (pc + oa.rp) % M
      RBB == (pc + ob.rp) % M
      nx  == (pc + 1) % M
      sk  == (pc + 2) % M
      prs == Pairs(IR.mod)
      n   == Len(prs)
      op  == IR.op
      pre == (IF oa.dec # -1 THEN << <<"Dec", oa.dec>> >> ELSE << >>)
          \o (IF oa.pip # -1 THEN << <<"Inc", oa.pip>> >> ELSE << >>)
          \o (IF ob.dec # -1 THEN << <<"Dec", ob.dec>> >> ELSE << >>)
          \o (IF ob.pip # -1 THEN << <<"Inc", ob.pip>> >> ELSE << >>)
      WritePairs(c, val(_)) ==
         LET w1 == [c EXCEPT ![WAB] = SetField(@, prs[1][1], val(prs[1]))] IN
         IF n = 1 THEN w1 ELSE [w1 EXCEPT ![WAB] = SetField(@, prs[2][1], val(prs[2]))]
      AllPairs(P(_)) == \A i \in 1..n : P(prs[i])
      AnyPair(P(_))  == \E i \in 1..n : P(prs[i])
      R(c, push, e) == [core |-> c, push |-> push, ev |-> pre \o e,
                        wab |-> WAB, rab |-> RAB, rbb |-> RBB,
                        reads |-> {pc, RAB, RBB} \cup oa.pr \cup ob.pr]     \* every cell the task reads
      W == << <<"Write", WAB>> >>
      Rd == << <<"Read", RAB>>, <<"Read", RBB>> >>
  IN
  CASE op = "DAT" -> R(c4, << >>, << <<"Term", pc>> >>)
    [] op = "MOV" ->
         IF IR.mod = "I" THEN R([c4 EXCEPT ![WAB] = IRA], <<nx>>, W)
         ELSE LET v(p) == Field(IRA, p[2]) IN R(WritePairs(c4, v), <<nx>>, W)
    [] op \in {"ADD","SUB","MUL"} ->
         LET v(p) == Arith(op, Field(IRA, p[2]), Field(IRB, p[3]), M)
         IN R(WritePairs(c4, v), <<nx>>, W)
    [] op \in {"DIV","MOD"} ->
         LET ok(p) == Field(IRA, p[2]) # 0
             v(p)  == Arith(op, Field(IRA, p[2]), Field(IRB, p[3]), M)
             w1 == IF ok(prs[1]) THEN [c4 EXCEPT ![WAB] = SetField(@, prs[1][1], v(prs[1]))] ELSE c4
             w2 == IF n = 2 /\ ok(prs[2]) THEN [w1 EXCEPT ![WAB] = SetField(@, prs[2][1], v(prs[2]))] ELSE w1
         IN IF AllPairs(ok) THEN R(w2, <<nx>>, W)
            ELSE R(w2, << >>, IF AnyPair(ok) THEN W \o << <<"Term", pc>> >> ELSE << <<"Term", pc>> >>)
    [] op = "JMP" -> R(c4, <<RAB>>, << >>)
    [] op = "JMZ" ->
         LET z(p) == Field(IRB, p[3]) = 0 IN
         R(c4, IF AllPairs(z) THEN <<RAB>> ELSE <<nx>>, << >>)
    [] op = "JMN" ->
         LET nz(p) == Field(IRB, p[3]) # 0 IN
         R(c4, IF AnyPair(nz) THEN <<RAB>> ELSE <<nx>>, << >>)
    [] op = "DJN" ->
         LET w1 == [c4 EXCEPT ![WAB] = SetField(@, prs[1][1], (Field(@, prs[1][1]) + M - 1) % M)]
             w2 == IF n = 2 THEN [w1 EXCEPT ![WAB] = SetField(@, prs[2][1], (Field(@, prs[2][1]) + M - 1) % M)] ELSE w1
             nz(p) == (Field(IRB, p[3]) + M - 1) % M # 0
         IN R(w2, IF AnyPair(nz) THEN <<RAB>> ELSE <<nx>>, << <<"Dec", WAB>> >>)
    [] op \in {"CMP","SEQ"} ->
         LET eq(p) == Field(IRA, p[2]) = Field(IRB, p[3])
             c == IF IR.mod = "I" THEN IRA = IRB ELSE AllPairs(eq)
         IN R(c4, IF c THEN <<sk>> ELSE <<nx>>, Rd)
    [] op = "SNE" ->
         LET eq(p) == Field(IRA, p[2]) = Field(IRB, p[3])
             c == IF IR.mod = "I" THEN IRA = IRB ELSE AllPairs(eq)
         IN R(c4, IF c THEN <<nx>> ELSE <<sk>>, Rd)
    [] op = "SLT" ->
         LET lt(p) == Field(IRA, p[2]) < Field(IRB, p[3]) IN
         R(c4, IF AllPairs(lt) THEN <<sk>> ELSE <<nx>>, Rd)
    [] op = "SPL" -> R(c4, <<nx, RAB>>, << >>)
    [] op = "NOP" -> R(c4, <<nx>>, << >>)

\* The interpreter with the configured limits ...
ExecTask(core0, pc, cfg) ==
  LET FR(p) == Fold(p, cfg.RL, cfg.M)
      FW(p) == Fold(p, cfg.WL, cfg.M)
  IN ExecTaskG(core0, pc, cfg.M, FR, FW)

\* ... and with limits ignored altogether (every pointer simply reduced mod M)
ExecTaskNoFold(core0, pc, M) ==
  LET FM(p) == p % M
  IN ExecTaskG(core0, pc, M, FM, FM)

\* circular distance between two addresses
CDist(x, y, M) == LET d == (x + M - y) % M IN IF d > M - d THEN M - d ELSE d

\* addresses named by a reference event list as changed
EvTouched(ev) == {ev[i][2] : i \in {j \in 1..Len(ev) : ev[j][1] \in {"Write","Dec","Inc"}}}
=============================================================================
