------------------------------ MODULE MARSCore ------------------------------
(* Prototype: one-task semantics of ICWS'94 draft reference emulator + A-indirect modes *)
EXTENDS Integers, Sequences, FiniteSets

Ops   == {"DAT","MOV","ADD","SUB","MUL","DIV","MOD","CMP","SEQ","SNE","SLT","JMP","JMZ","JMN","DJN","SPL","NOP"}
Mods  == {"F","A","B","AB","BA","X","I"}
Modes == {"$","#","*","@","{","<","}",">"}

Fold(p, lim, M) == LET r == p % lim IN IF r > (lim \div 2) THEN r + (M - lim) ELSE r

Field(ins, f)       == IF f = "A" THEN ins.a ELSE ins.b
SetField(ins, f, v) == IF f = "A" THEN [ins EXCEPT !.a = v] ELSE [ins EXCEPT !.b = v]
IndField(mode) == IF mode \in {"*","{","}"} THEN "A" ELSE "B"
IsPre(mode)    == mode \in {"{","<"}
IsPost(mode)   == mode \in {"}",">"}

\* cfg == [M, RL, WL]
Operand(core, pc, mode, val, cfg) ==
  LET M == cfg.M IN
  IF mode = "#" THEN [core |-> core, rp |-> 0, wp |-> 0, pip |-> -1, f |-> "B", dec |-> -1]
  ELSE LET rp0 == Fold(val, cfg.RL, M)
           wp0 == Fold(val, cfg.WL, M) IN
    IF mode = "$" THEN [core |-> core, rp |-> rp0, wp |-> wp0, pip |-> -1, f |-> "B", dec |-> -1]
    ELSE LET f  == IndField(mode)
             da == (pc + wp0) % M
             c1 == IF IsPre(mode)
                   THEN [core EXCEPT ![da] = SetField(@, f, (Field(@, f) + M - 1) % M)]
                   ELSE core
             rp == Fold(rp0 + Field(c1[(pc + rp0) % M], f), cfg.RL, M)
             wp == Fold(wp0 + Field(c1[(pc + wp0) % M], f), cfg.WL, M)
         IN [core |-> c1, rp |-> rp, wp |-> wp,
             pip |-> IF IsPost(mode) THEN da ELSE -1, f |-> f,
             dec |-> IF IsPre(mode) THEN da ELSE -1]

PostInc(core, o, M) ==
  IF o.pip = -1 THEN core
  ELSE [core EXCEPT ![o.pip] = SetField(@, o.f, (Field(@, o.f) + 1) % M)]

\* destination/source field pairs selected by a modifier: <<dst, srcOfIRA, srcOfIRB>> 
Pairs(mod) ==
  CASE mod = "A"  -> << <<"A","A","A">> >>
    [] mod = "B"  -> << <<"B","B","B">> >>
    [] mod = "AB" -> << <<"B","A","B">> >>
    [] mod = "BA" -> << <<"A","B","A">> >>
    [] mod \in {"F","I"} -> << <<"A","A","A">>, <<"B","B","B">> >>
    [] mod = "X"  -> << <<"B","A","B">>, <<"A","B","A">> >>

Arith(op, x, y, M) == \* y op x  (IRB op IRA)
  CASE op = "ADD" -> (y + x) % M
    [] op = "SUB" -> (y + M - x) % M
    [] op = "MUL" -> (y * x) % M
    [] op = "DIV" -> y \div x
    [] op = "MOD" -> y % x

ExecTask(core0, pc, cfg) ==
  LET M   == cfg.M
      IR  == core0[pc]
      oa  == Operand(core0, pc, IR.am, IR.a, cfg)
      IRA == oa.core[(pc + oa.rp) % M]
      c2  == PostInc(oa.core, oa, M)
      ob  == Operand(c2, pc, IR.bm, IR.b, cfg)
      IRB == ob.core[(pc + ob.rp) % M]
      c4  == PostInc(ob.core, ob, M)
      WAB == (pc + ob.wp) % M
      RAB == (pc + oa.rp) % M
      nx  == (pc + 1) % M
      sk  == (pc + 2) % M
      prs == Pairs(IR.mod)
      n   == Len(prs)
      \* generic write of pairs
      WritePairs(c, val(_)) ==
         LET w1 == [c EXCEPT ![WAB] = SetField(@, prs[1][1], val(prs[1]))] IN
         IF n = 1 THEN w1 ELSE [w1 EXCEPT ![WAB] = SetField(@, prs[2][1], val(prs[2]))]
      AllPairs(P(_)) == \A i \in 1..n : P(prs[i])
      AnyPair(P(_))  == \E i \in 1..n : P(prs[i])
      op == IR.op
  IN
  CASE op = "DAT" -> [core |-> c4, push |-> << >>]
    [] op = "MOV" ->
         IF IR.mod = "I" THEN [core |-> [c4 EXCEPT ![WAB] = IRA], push |-> <<nx>>]
         ELSE LET v(p) == Field(IRA, p[2]) IN [core |-> WritePairs(c4, v), push |-> <<nx>>]
    [] op \in {"ADD","SUB","MUL"} ->
         LET v(p) == Arith(op, Field(IRA, p[2]), Field(IRB, p[3]), M)
         IN [core |-> WritePairs(c4, v), push |-> <<nx>>]
    [] op \in {"DIV","MOD"} ->
         LET ok(p) == Field(IRA, p[2]) # 0
             v(p)  == IF ok(p) THEN Arith(op, Field(IRA, p[2]), Field(IRB, p[3]), M)
                      ELSE Field(c4[WAB], p[1])
             \* when the 2 pairs write: each write happens only if its divisor non-zero
             w1 == IF ok(prs[1]) THEN [c4 EXCEPT ![WAB] = SetField(@, prs[1][1], v(prs[1]))] ELSE c4
             w2 == IF n = 2 /\ ok(prs[2]) THEN [w1 EXCEPT ![WAB] = SetField(@, prs[2][1], v(prs[2]))] ELSE w1
         IN [core |-> w2, push |-> IF AllPairs(ok) THEN <<nx>> ELSE << >>]
    [] op = "JMP" -> [core |-> c4, push |-> <<RAB>>]
    [] op = "JMZ" ->
         LET z(p) == Field(IRB, p[3]) = 0 IN
         [core |-> c4, push |-> IF AllPairs(z) THEN <<RAB>> ELSE <<nx>>]
    [] op = "JMN" ->
         LET nz(p) == Field(IRB, p[3]) # 0 IN
         [core |-> c4, push |-> IF AnyPair(nz) THEN <<RAB>> ELSE <<nx>>]
    [] op = "DJN" ->
         LET d(p)  == (Field(c4[WAB], p[1]) + M - 1) % M
             \* decrement target fields in the written cell one after another
             w1 == [c4 EXCEPT ![WAB] = SetField(@, prs[1][1], (Field(@, prs[1][1]) + M - 1) % M)]
             w2 == IF n = 2 THEN [w1 EXCEPT ![WAB] = SetField(@, prs[2][1], (Field(@, prs[2][1]) + M - 1) % M)] ELSE w1
             nz(p) == (Field(IRB, p[3]) + M - 1) % M # 0
         IN [core |-> w2, push |-> IF AnyPair(nz) THEN <<RAB>> ELSE <<nx>>]
    [] op \in {"CMP","SEQ"} ->
         LET eq(p) == Field(IRA, p[2]) = Field(IRB, p[3])
             c == IF IR.mod = "I" THEN IRA = IRB ELSE AllPairs(eq)
         IN [core |-> c4, push |-> IF c THEN <<sk>> ELSE <<nx>>]
    [] op = "SNE" ->
         LET eq(p) == Field(IRA, p[2]) = Field(IRB, p[3])
             c == IF IR.mod = "I" THEN IRA = IRB ELSE AllPairs(eq)
         IN [core |-> c4, push |-> IF c THEN <<nx>> ELSE <<sk>>]
    [] op = "SLT" ->
         LET lt(p) == Field(IRA, p[2]) < Field(IRB, p[3]) IN
         [core |-> c4, push |-> IF AllPairs(lt) THEN <<sk>> ELSE <<nx>>]
    [] op = "SPL" -> [core |-> c4, push |-> <<nx, RAB>>]
    [] op = "NOP" -> [core |-> c4, push |-> <<nx>>]
=============================================================================
