INIT Init
NEXT Next
CONSTANTS
  Ms = {3, 4, 5}
  AllLimits = TRUE
  PoolN = 2
INVARIANTS TypeOK WriteBound ReadBound NoLimit EvCovers EvValid DeathIffNoPush SplOrder
CHECK_DEADLOCK FALSE
