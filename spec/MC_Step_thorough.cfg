INIT Init
NEXT Next
CONSTANTS
  Ms = {3, 4, 5}
  AllLimits = TRUE
  PoolN = 2
INVARIANTS StepProps
CHECK_DEADLOCK FALSE
