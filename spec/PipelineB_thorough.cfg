CONSTANTS
  L = 4
  FIXED = TRUE
  FAMILY = "block"
  EMIT = FALSE
SPECIFICATION Spec
INVARIANTS NoLeak Shape
PROPERTY Terminates
CHECK_DEADLOCK FALSE
