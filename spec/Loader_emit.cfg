CONSTANTS
  L = 3
  EMIT = TRUE
INIT Init
NEXT Next
INVARIANTS Sound Emit
CHECK_DEADLOCK FALSE
