CONSTANTS L = 4 FIXED = TRUE
SPECIFICATION Spec
INVARIANT NoLeak
INVARIANT Shape
PROPERTY Terminates
CHECK_DEADLOCK FALSE
