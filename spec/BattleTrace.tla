------------------------------ MODULE BattleTrace ------------------------------
(***************************************************************************)
(* Trace validation of whole battles recorded from the real simulator      *)
(* (harness "battles" / "rot" / "api").  One TLC state per trace line; the *)
(* spec state is re-synchronised to the LOGGED state after every line, so  *)
(* every call is checked on its own against MARS.tla and one rejection does *)
(* not hide later ones.  A failing line prints REJECT <index>.              *)
(*   Mode C02  every call's observable result equals the spec's (scheduler, *)
(*             queues, stop rule, Run() twin = stepped final state)         *)
(*   Mode C04  only the safety invariants, on the recorded states           *)
(*   Mode C12  rot events: final state at shift k = rotation of shift 0     *)
(*   Mode C15  report stream and state recorder                             *)
(***************************************************************************)
EXTENDS MARS, Codec, TLC, Json, IOUtils
Trace == ndJsonDeserialize(IOEnv.VERIF_TRACE)
Mode  == IOEnv.VERIF_MODE

VARIABLES l, t          \* t = [S, stale, rec, ok]
Flags(S) == [k \in 1..N(S) |-> IF S.ws[k] = "alive" THEN 1 ELSE 0]
EmptyRec(M) == [a \in 0..M-1 |-> <<0, -1>>]
DecRec(r) == [a \in 0..Len(r)-1 |-> <<r[a+1][1], r[a+1][2]>>]

\* the observable part of a logged post-state equals spec state X (core through the diff)
PostEq(e, X, base, stale) ==
  /\ e.cycle = X.cycle /\ e.living = X.living /\ e.count = N(X)
  /\ e.alive = Flags(X)
  /\ Len(e.q) = N(X)
  /\ \A i \in 1..N(X) : i \notin stale => e.q[i] = X.wq[i]
  /\ ApplyDiff(base, e.d, 1) = X.core

\* the logged state as a spec state (resynchronisation); X = what the spec expected
Logged(e, X, base) ==
  IF e.count # N(X) \/ Len(e.alive) # N(X) \/ Len(e.q) # N(X) THEN X
  ELSE [X EXCEPT !.core = ApplyDiff(base, e.d, 1), !.cycle = e.cycle, !.living = e.living,
                 !.wq = [i \in 1..N(X) |-> e.q[i]],
                 !.ws = [i \in 1..N(X) |-> IF e.alive[i] = 1 THEN "alive"
                                           ELSE IF X.ws[i] = "alive" THEN "dead" ELSE X.ws[i]]]

\* safety invariants of C04 on a logged post-state (core cells only change through d)
SafeLoggedS(e, S, stale) ==
  /\ \A k \in 1..Len(e.d) : e.d[k][1] \in 0..S.M-1 /\ WellFormedIns(DecIns(e.d[k][2]), S.M)
  /\ Len(e.q) = e.count /\ Len(e.alive) = e.count
  /\ \A i \in 1..Len(e.q) : /\ Len(e.q[i]) <= S.P
                            /\ \A k \in 1..Len(e.q[i]) : e.q[i][k] \in 0..S.M-1
  /\ \A i \in 1..Len(e.q) : i \notin stale => ((e.alive[i] = 1) <=> (e.q[i] # << >>))
  /\ e.cycle \in 0..S.C
  /\ e.living = Cardinality({i \in 1..Len(e.alive) : e.alive[i] = 1})

SafeLogged(e, S) == SafeLoggedS(e, S, t.stale)

\* ---------------------------------------------------------------- reports (C15)
RSpawn == 3  RTerm == 6  RDie == 7  RWrite == 9  RDec == 10  RInc == 11
RecPut(rec, a, v) == IF a \in DOMAIN rec THEN [rec EXCEPT ![a] = v] ELSE rec
RECURSIVE RecFold(_, _, _)
RecFold(rec, ev, k) ==
  IF k > Len(ev) THEN rec
  ELSE LET x == ev[k]
           r2 == CASE x[1] = "Pop"   -> RecPut(rec, x[3], <<1, x[2]>>)
                   [] x[1] = "Read" /\ t.reads -> RecPut(rec, x[3], <<5, x[2]>>)      \* only when the recorder was asked to record reads
                   [] x[1] = "Write" -> RecPut(rec, x[3], <<2, x[2]>>)
                   [] x[1] = "Inc"   -> RecPut(rec, x[3], <<3, x[2]>>)
                   [] x[1] = "Dec"   -> RecPut(rec, x[3], <<4, x[2]>>)
                   [] x[1] = "Term"  -> RecPut(rec, x[3], <<6, x[2]>>)
                   [] OTHER -> rec
       IN RecFold(r2, ev, k + 1)
\* reference events of a whole cycle, in two admissible orders for the division-by-zero corner
TaskEvs(s, alt) ==
  LET body == IF alt /\ s.op \in {"DIV","MOD"} /\ s.push = << >>
              THEN SelectSeq(s.ev, LAMBDA x : x[1] \notin {"Write", "Term"}) \o << <<"Term", s.pc>>, <<"Write", s.wab>> >>
              ELSE s.ev
  IN << <<"Pop", s.w, s.pc>> >> \o [k \in 1..Len(body) |-> <<body[k][1], s.w, body[k][2]>>]
RECURSIVE CycleEvs(_, _, _)
CycleEvs(tasks, alt, k) == IF k > Len(tasks) THEN << >> ELSE TaskEvs(tasks[k], alt) \o CycleEvs(tasks, alt, k + 1)
SpawnRec(rec, S, i, off) ==
  LET n == Len(S.wd[i+1].code) IN
  [a \in DOMAIN rec |-> IF \E k \in 0..n-1 : (off + k) % S.M = a THEN <<2, i>> ELSE rec[a]]

ReportsOK(e, c, S) ==
  /\ Len(e.tasks) = Len(c.tasks)
  /\ \A k \in 1..Len(e.tasks) :
       LET x == e.tasks[k]
           s == c.tasks[k]
           reported == {x.rep[j][2] : j \in {j \in 1..Len(x.rep) : x.rep[j][1] \in {RWrite, RDec, RInc}}}
           may == EvTouched(s.ev) \cup (IF s.op \in {"DIV","MOD"} THEN {s.wab} ELSE {})
       IN /\ x.w = s.w /\ x.pc = s.pc
          /\ \A j \in 1..Len(x.rep) : x.rep[j][2] \in 0..S.M-1
          /\ {x.chg[j] : j \in 1..Len(x.chg)} \subseteq reported
          /\ reported \subseteq may
          /\ (\E j \in 1..Len(x.rep) : x.rep[j][1] = RTerm) <=> (s.push = << >>)
          /\ (\E j \in 1..Len(x.rep) : x.rep[j][1] = RDie) <=> s.dead
  /\ \A j \in 1..Len(e.other) : e.other[j][1] \in {1, 2}       \* only cycle start/end outside tasks
  /\ LET ra == RecFold(t.rec, CycleEvs(c.tasks, FALSE, 1), 1)
         rb == RecFold(t.rec, CycleEvs(c.tasks, TRUE, 1), 1)
         lg == DecRec(e.rec)
         \* The property fixes the change reports (write / increment / decrement), the pops and the terminations; WHICH reads
         \* are announced it leaves open.  With a recorder that records reads, an address may therefore also show a read mark
         \* of a warrior one of whose tasks in this cycle reads that cell (operand, pointer or instruction cell of the
         \* reference semantics; possibly a cell the same task has just changed), provided no later task of the cycle pops, changes or dies on it; and a
         \* read the reference stream contains may be left out.
         n  == Len(c.tasks)
         Hard(s) == {s.pc} \cup EvTouched(s.ev) \cup (IF s.op \in {"DIV","MOD"} THEN {s.wab} ELSE {})
         ReadMarkOK(a, w) == \E k \in 1..n : /\ c.tasks[k].w = w /\ a \in c.tasks[k].reads
                                              /\ \A j \in (k+1)..n : a \notin Hard(c.tasks[j])
         NoRead(ev) == SelectSeq(ev, LAMBDA x : x[1] # "Read")
         rc == RecFold(t.rec, NoRead(CycleEvs(c.tasks, FALSE, 1)), 1)
         rd == RecFold(t.rec, NoRead(CycleEvs(c.tasks, TRUE, 1)), 1)
     IN DOMAIN lg = DOMAIN ra /\ \A a \in DOMAIN lg :
          \/ lg[a] \in {ra[a], rb[a]}
          \/ t.reads /\ (lg[a] \in {rc[a], rd[a]} \/ (lg[a][1] = 5 /\ ReadMarkOK(a, lg[a][2])))

\* ---------------------------------------------------------------- query calls (C13)
QryOK(e, X, stale) ==
  /\ "qpanic" \notin DOMAIN e
  /\ Len(e.gw) = N(X) + 3
  /\ \A j \in 1..Len(e.gw) : e.gw[j] = (IF (j - 2) \in 0..N(X)-1 THEN 1 ELSE 0)     \* GetWarrior(-1..count+1): nil unless valid
  /\ Len(e.npc) = N(X) /\ Len(e.len) = N(X)
  /\ \A i \in 1..N(X) :
        /\ IF X.ws[i] = "alive" THEN e.npc[i] = <<Head(X.wq[i]), 0>>                   \* NextPC = head of the queue
           ELSE IF i \in stale THEN e.npc[i][2] \in {0, 1}                            \* unspecified after Reset, but no panic
           ELSE e.npc[i][2] = 1                                                       \* never started / dead: an error
        /\ e.len[i] = Len(X.wd[i].code)
  /\ \A j \in 1..Len(e.gm) : DecIns(e.gm[j][2]) = X.core[e.gm[j][1] % X.M]           \* GetMem reduces the address
  /\ e.cc = X.cycle /\ e.maxc = X.C /\ e.cs = X.M

\* ---------------------------------------------------------------- per-event checks
S == t.S
NoCfg == [M |-> 3, P |-> 1, C |-> 1, RL |-> 3, WL |-> 3]
EvCfg(e) == [M |-> e.M, P |-> e.P, C |-> e.C, RL |-> e.RL, WL |-> e.WL,
             L |-> IF "L" \in DOMAIN e THEN e.L ELSE e.M, D |-> IF "D" \in DOMAIN e THEN e.D ELSE 0]
IsPanic(msg) == Len(msg) >= 5 /\ SubSeq(msg, 1, 5) = "panic"

\* what the spec allows a RunCycle call to produce from S: a set of [S, ran] candidates
CycleOutcomes(X) ==
  IF InProgress(X) THEN {CycleW(X)}
  ELSE LET noop == [S |-> X, pops |-> << >>, ev |-> << >>, tasks |-> << >>, early |-> FALSE] IN
       IF PartialStart(X) THEN {noop, CycleW(X)} ELSE {noop}

Check(e) ==
  IF t.bad /\ e.ev \notin {"new", "caller", "job", "jobcmp"} THEN TRUE ELSE
  CASE e.ev = "new" ->
         /\ ~IsPanic(e.msg)
         /\ Mode = "C02" => ((e.ok = 1) <=> ValidConfig(EvCfg(e)))
    [] e.ev = "add" ->
         ("cycle" \in DOMAIN e /\ Mode = "C13") =>
            LET X == AddW(S, [code |-> DecCode(e.code), start |-> e.start]) IN
            e.err = 0 /\ PostEq(e, X, S.core, t.stale) /\ QryOK(e, X, t.stale)
    [] e.ev = "run" ->
         /\ e.panic = "" /\ e.timeout = 0
         /\ Mode = "C04" => SafeLogged(e, S)
         /\ Mode = "C13" => LET R == RunW(S) IN
                            /\ (e.nil = 1) <=> (N(S) = 0)
                            /\ N(S) > 0 => e.flags = Flags(R)
                            /\ PostEq(e, R, S.core, t.stale) /\ QryOK(e, R, t.stale)
         \* C02: Run() from any point of a battle ends in the state the cycle loop ends in (on a finished battle: no change)
         /\ Mode \in {"C02", "C15"} => LET R == RunW(S) IN (N(S) > 0 => e.flags = Flags(R)) /\ PostEq(e, R, S.core, t.stale)
    [] e.ev = "spawn" ->
         LET r == SpawnW(S, e.i, e.off) IN
         /\ e.panic = ""
         /\ Mode = "C04" => SafeLogged(e, S)
         /\ Mode \in {"C02", "C13", "C15"} => /\ (e.err = 1) <=> (r.err # "")
                                              /\ PostEq(e, r.S, S.core, IF r.err = "" THEN t.stale \ {e.i + 1} ELSE t.stale)
         /\ Mode = "C13" => QryOK(e, r.S, IF r.err = "" THEN t.stale \ {e.i + 1} ELSE t.stale)
         /\ Mode = "C15" => /\ e.tasks = << >>
                            /\ e.other = (IF r.err = "" THEN << <<RSpawn, e.i, e.off % S.M>> >> ELSE << >>)
                            /\ DecRec(e.rec) = (IF r.err = "" THEN SpawnRec(t.rec, S, e.i, e.off % S.M) ELSE t.rec)
    [] e.ev = "cycle" ->
         /\ e.panic = ""
         /\ Mode = "C04" => SafeLogged(e, S)
         /\ Mode \in {"C02", "C13"} => \E c \in CycleOutcomes(S) :
                               /\ PostEq(e, c.S, S.core, t.stale)
                               /\ c.tasks # << >> => e.ret = c.S.living
                               /\ ("tasks" \in DOMAIN e) => [k \in 1..Len(e.tasks) |-> <<e.tasks[k].w, e.tasks[k].pc>>] = c.pops   \* executed PCs
                               /\ Mode = "C13" => QryOK(e, c.S, t.stale)
         /\ Mode = "C15" => \E c \in CycleOutcomes(S) : PostEq(e, c.S, S.core, t.stale) /\ ReportsOK(e, c, S)
    [] e.ev = "runtwin" ->
         /\ e.panic = ""
         /\ Mode = "C02" => /\ ~InProgress(S)
                            /\ e.cycle = S.cycle /\ e.living = S.living /\ e.count = N(S)
                            /\ e.alive = Flags(S) /\ e.flags = Flags(S)
                            /\ \A i \in 1..N(S) : e.q[i] = S.wq[i]
                            /\ e.same = 1
    [] e.ev = "reset" ->
         /\ Mode = "C04" => SafeLoggedS(e, S, {})               \* a reset warrior is not alive and holds no task (C04; D32)
         /\ Mode \in {"C02", "C13", "C15"} => PostEq(e, ResetW(S), S.core, {})
         /\ Mode = "C13" => QryOK(e, ResetW(S), {})
         /\ Mode = "C15" => DecRec(e.rec) = EmptyRec(S.M)
    [] e.ev = "rot" ->
         Mode = "C12" =>
           LET A == e.a  B == e.b  M == Len(A.core)  k == e.k % M IN
           /\ B.cycle = A.cycle /\ B.living = A.living /\ B.alive = A.alive /\ e.bflags = e.aflags
           /\ Len(B.core) = M
           /\ \A a \in 1..M : B.core[((a - 1 + k) % M) + 1] = A.core[a]
           /\ Len(B.q) = Len(A.q)
           /\ \A i \in 1..Len(A.q) : /\ Len(B.q[i]) = Len(A.q[i])
                                     /\ \A j \in 1..Len(A.q[i]) : B.q[i][j] = (A.q[i][j] + k) % M
    [] e.ev = "caller" -> e.orig = e.after /\ e.origstart = e.afterstart     \* the caller's data is never touched (C14)
    [] e.ev = "job" -> TRUE
    [] e.ev = "jobcmp" -> \A i \in 1..Len(e.results) : e.results[i] = e.results[1]   \* same result in every run/order/thread count
    [] OTHER -> FALSE

\* ---------------------------------------------------------------- state update (resync to the log)
\* a logged state the spec cannot continue from (ill-formed or after a panic): the rest of that
\* trace is skipped (the line that went wrong has been rejected already)
Usable(e) == /\ ("panic" \in DOMAIN e) => e.panic = ""
             /\ ("timeout" \in DOMAIN e) => e.timeout = 0
             /\ "obspanic" \notin DOMAIN e
             /\ e.count = N(S) + (IF e.ev = "add" THEN 1 ELSE 0)
             /\ Len(e.alive) = e.count /\ Len(e.q) = e.count
             /\ \A k \in 1..Len(e.d) : e.d[k][1] \in 0..S.M-1 /\ WellFormedIns(DecIns(e.d[k][2]), S.M)
             /\ \A i \in 1..Len(e.q) : \A k \in 1..Len(e.q[i]) : e.q[i][k] \in 0..S.M-1
             /\ \A i \in 1..Len(e.q) : e.alive[i] = 1 => e.q[i] # << >>
             /\ e.cycle >= 0 /\ e.living >= 0
NextT1(e) ==
  CASE e.ev = "new" -> [S |-> IF e.ok = 1 /\ e.M \in 1..100000 THEN NewState(EvCfg(e)) ELSE NewState(NoCfg),
                        stale |-> {}, rec |-> IF e.ok = 1 /\ e.M <= 4096 THEN EmptyRec(e.M) ELSE EmptyRec(1),
                        bad |-> e.ok # 1, reads |-> ("reads" \in DOMAIN e) /\ e.reads = 1]
    [] e.ev = "add" -> IF t.bad THEN t
                       ELSE LET X == AddW(S, [code |-> DecCode(e.code), start |-> e.start]) IN
                            [t EXCEPT !.S = IF "cycle" \in DOMAIN e THEN Logged(e, X, S.core) ELSE X]
    [] e.ev = "run" -> [t EXCEPT !.S = Logged(e, IF Mode = "C04" THEN S ELSE RunW(S), S.core)]
    [] e.ev = "spawn" -> LET r == SpawnW(S, e.i, e.off) IN
                         [t EXCEPT !.S = Logged(e, IF Mode = "C04" THEN [S EXCEPT !.ws = [i \in 1..N(S) |-> IF i = e.i + 1 /\ e.err = 0 THEN "alive" ELSE @[i]]] ELSE r.S, S.core),
                                   !.stale = IF e.err = 0 THEN @ \ {e.i + 1} ELSE @,
                                   !.rec = IF "rec" \in DOMAIN e THEN DecRec(e.rec) ELSE @]
    [] e.ev = "cycle" -> LET c == IF Mode = "C04" THEN S ELSE IF InProgress(S) \/ (PartialStart(S) /\ e.cycle # S.cycle) THEN CycleW(S).S ELSE S IN
                         [t EXCEPT !.S = Logged(e, c, S.core),
                                   !.rec = IF "rec" \in DOMAIN e THEN DecRec(e.rec) ELSE @]
    \* (Reset drops the process queues since the repair of D32: no warrior keeps stale tasks, nothing is exempt any more)
    [] e.ev = "reset" -> [t EXCEPT !.S = Logged(e, ResetW(S), S.core), !.stale = {},
                                   !.rec = IF "rec" \in DOMAIN e THEN DecRec(e.rec) ELSE @]
    [] OTHER -> t

NextT(e) ==
  IF (e.ev \in {"spawn", "cycle", "reset", "run"} \/ (e.ev = "add" /\ "cycle" \in DOMAIN e)) /\ (t.bad \/ ~Usable(e)) THEN [t EXCEPT !.bad = TRUE] ELSE NextT1(e)

Init == l = 1 /\ t = [S |-> NewState(NoCfg), stale |-> {}, rec |-> EmptyRec(1), bad |-> TRUE, reads |-> FALSE]
Next == /\ l <= Len(Trace)
        /\ l' = l + 1
        /\ t' = NextT(Trace[l])
        /\ IF Check(Trace[l]) THEN TRUE ELSE PrintT(<<"REJECT", l>>)
Accepted == TLCGet("stats").diameter - 1 = Len(Trace)
=============================================================================
