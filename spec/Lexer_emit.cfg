CONSTANTS
  L = 3
  EMIT = TRUE
INIT Init
NEXT Next
INVARIANTS Shape Emit
CHECK_DEADLOCK FALSE
