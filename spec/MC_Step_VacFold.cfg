INIT Init
NEXT Next
CONSTANTS
  Ms = {5}
  AllLimits = TRUE
  PoolN = 2
INVARIANTS VacFold
CHECK_DEADLOCK FALSE
