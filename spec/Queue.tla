------------------------------ MODULE Queue ------------------------------
(***************************************************************************)
(* The process queue (queue.go): a ring buffer of `size` slots with start,  *)
(* end and length, transcribed field by field, next to the abstract FIFO    *)
(* sequence `abs` it has to implement (C02: tasks are taken from the front, *)
(* new tasks go to the back, a push at the process limit is dropped).       *)
(*   Refines   the ring buffer always represents `abs`                      *)
(*   Bounded   never more than `size` tasks                                 *)
(* The history of operations is carried outside the VIEW; Emit prints, for  *)
(* every reachable state, the witness operation sequence with the expected  *)
(* observations, replayed on the real queue through VerifQueueOps.          *)
(***************************************************************************)
EXTENDS Integers, Sequences, TLC, Json
CONSTANTS Sizes, Vals, EMIT

VARIABLES size, buf, start, end, length, abs, hist
vars == <<size, buf, start, end, length, abs, hist>>
view == <<size, buf, start, end, length, abs>>

Init == /\ size \in Sizes /\ buf = [i \in 0..size-1 |-> 0] /\ start = 0 /\ end = 0 /\ length = 0
        /\ abs = << >> /\ hist = << >>
\* observation after an operation: popped value (-1 none, -2 empty), Len, Values, Next
Values(b, s, l) == [i \in 1..l |-> b[(s + i - 1) % size]]
Obs(p, b, s, l) == [popped |-> p, len |-> l, values |-> Values(b, s, l), next |-> IF l = 0 THEN -1 ELSE b[s]]
Push(a) == /\ IF length >= size
              THEN UNCHANGED <<buf, end, length, abs>>                              \* at the limit: dropped
              ELSE /\ buf' = [buf EXCEPT ![end] = a] /\ end' = (end + 1) % size /\ length' = length + 1
                   /\ abs' = Append(abs, a)
           /\ UNCHANGED <<size, start>>
           /\ hist' = Append(hist, [op |-> a, obs |-> Obs(-1, buf', start, length')])
Pop == /\ IF length = 0
          THEN /\ UNCHANGED <<start, length, abs>> /\ hist' = Append(hist, [op |-> -1, obs |-> Obs(-2, buf, start, 0)])
          ELSE /\ start' = (start + 1) % size /\ length' = length - 1 /\ abs' = Tail(abs)
               /\ hist' = Append(hist, [op |-> -1, obs |-> Obs(buf[start], buf, start', length')])
       /\ UNCHANGED <<size, buf, end>>
Next == (\E a \in Vals : Push(a)) \/ Pop

Refines == /\ length = Len(abs) /\ Values(buf, start, length) = abs
           /\ end = (start + length) % size /\ start \in 0..size-1
Bounded == length <= size
\* what the last operation returned agrees with the abstract queue
LastOK == hist # << >> =>
            LET h == hist[Len(hist)] IN h.obs.values = abs /\ h.obs.len = Len(abs) /\ h.obs.next = (IF abs = << >> THEN -1 ELSE Head(abs))
Emit == (EMIT /\ hist # << >>) => PrintT(<<"CASE", ToJson([size |-> size, hist |-> hist])>>)
=============================================================================
