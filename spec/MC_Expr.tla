------------------------------ MODULE MC_Expr ------------------------------
(* Exhaustive small-scope agreement of the two expression semantics: for every AST of depth <= D *)
(* over a small literal set, Eval(Render(ast)) = EvalAst(ast); plus fixed regression vectors.     *)
EXTENDS Expr, TLC
CONSTANT D
Lits == {-2, 0, 3}
RECURSIVE Asts(_)
Asts(d) == IF d = 0 THEN {<<"lit", v>> : v \in Lits}
           ELSE LET S == Asts(d - 1) IN
                S \cup {<<"neg", a>> : a \in S} \cup {<<"pos", a>> : a \in {x \in S : x[1] = "lit"}} \cup {<<"par", a>> : a \in {x \in S : x[1] # "par"}}
                  \cup {<<o, a, b>> : o \in {"+", "-", "*", "/", "%"}, a \in S, b \in S}
VARIABLE a
Init == a \in Asts(D)
Next == UNCHANGED a
Agree == Eval(Render(a)) = EvalAst(a)
n(v) == <<"n", v>>
Vectors == << <<<<n(1), <<"-">>, <<"-">>, <<"-">>, n(5)>>, -4>>, <<<<n(5), <<"*">>, <<"-">>, <<"-">>, n(1)>>, 5>>,
              <<<<<<"-">>, <<"-">>, <<"-">>, n(5)>>, -5>>, <<<<n(1), <<"+">>, n(2), <<"*">>, n(3)>>, 7>>,
              <<<<<<"(">>, n(1), <<"+">>, n(2), <<")">>, <<"*">>, n(3)>>, 9>>, <<<<<<"-">>, n(7), <<"/">>, n(2)>>, -3>>,
              <<<<<<"-">>, n(7), <<"%">>, n(3)>>, -1>>, <<<<n(10), <<"-">>, n(2), <<"-">>, n(3)>>, 5>>,
              <<<<n(100), <<"/">>, n(5), <<"/">>, n(2)>>, 10>>, <<<<n(7), <<"%">>, <<"-">>, n(3)>>, 1>>,
              <<<<n(2), <<"*">>, <<"(">>, <<"-">>, <<"-">>, n(3), <<")">>>>, 6>> >>
ASSUME \A i \in 1..Len(Vectors) : Eval(Vectors[i][1]) = [ok |-> TRUE, v |-> Vectors[i][2]]
ASSUME ~Eval(<<n(7), <<"/">>, n(0)>>).ok /\ ~Eval(<<n(7), <<"%">>, n(0)>>).ok /\ ~Eval(<<n(7), <<"+">>>>).ok /\ ~Eval(<<>>).ok
=============================================================================
