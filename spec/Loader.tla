------------------------------ MODULE Loader ------------------------------
(***************************************************************************)
(* The load-file reader (load.go) as a line machine: actions ReadBlank,     *)
(* ReadComment, ReadInstr, ReadOrg, ReadEnd, ReadBad per line, and the      *)
(* final entry-point check.  A line is [f, comma] where f is a sequence of  *)
(* tagged fields:  <<"w", word>>  <<"opm", opcode, modifier>>  <<"m", c>>   *)
(* <<"n", integer>>  <<"x">> (a word where a number is expected).           *)
(* Read(lines, dialect, M) = [err, code, start].                            *)
(* Emit prints every sequence of up to L line shapes (from a set of about   *)
(* thirty: valid and invalid instructions of both dialects, every ORG/END   *)
(* form, comments, blanks, garbage) with the result; the cases are rendered *)
(* to text and replayed through the real ParseLoadFile.                     *)
(***************************************************************************)
EXTENDS Asm, TLC, Json
CONSTANTS L, EMIT

W(s) == <<"w", s>>
OPM(o, m) == <<"opm", o, m>>
Md(c) == <<"m", c>>
Nm(v) == <<"n", v>>
Ln(f, c) == [f |-> f, comma |-> c]

Shapes == {
  Ln(<<OPM("MOV","I"), Md("$"), Nm(0), Md("$"), Nm(1)>>, TRUE),       \* valid '94
  Ln(<<W("MOV"), Md("$"), Nm(0), Md("$"), Nm(1)>>, TRUE),             \* valid '88
  Ln(<<OPM("DAT","F"), Md("#"), Nm(0), Md("#"), Nm(-1)>>, TRUE),
  Ln(<<W("DAT"), Md("#"), Nm(0), Md("<"), Nm(-1)>>, TRUE),
  Ln(<<OPM("MOV","I"), Md("*"), Nm(0), Md("}"), Nm(1)>>, TRUE),       \* '94-only modes
  Ln(<<W("MOV"), Md("*"), Nm(0), Md("$"), Nm(1)>>, TRUE),
  Ln(<<OPM("MOV","I"), Md("$"), Nm(0), Md("$"), Nm(1)>>, FALSE),      \* comma missing
  Ln(<<W("MOV"), Md("$"), Nm(0), Md("$"), Nm(1)>>, FALSE),
  Ln(<<OPM("MOV","I"), Md("$"), <<"x">>, Md("$"), Nm(1)>>, TRUE),     \* not a number
  Ln(<<W("MOV"), Md("$"), Nm(0), Md("#"), Nm(1)>>, TRUE),             \* '88: immediate B illegal for MOV
  Ln(<<W("JMP"), Md("#"), Nm(0), Md("$"), Nm(1)>>, TRUE),             \* '88: immediate A illegal for JMP
  Ln(<<OPM("MUL","F"), Md("$"), Nm(0), Md("$"), Nm(1)>>, TRUE),       \* not an '88 opcode
  Ln(<<W("MUL"), Md("$"), Nm(0), Md("$"), Nm(1)>>, TRUE),
  Ln(<<OPM("MOV","Q"), Md("$"), Nm(0), Md("$"), Nm(1)>>, TRUE),       \* unknown modifier
  Ln(<<OPM("MOV","I"), Md("$"), Nm(0), Md("$")>>, TRUE),              \* four fields
  Ln(<<OPM("MOV","I"), Md("$"), Nm(0), Md("$"), Nm(1), Nm(2)>>, TRUE),\* six fields
  Ln(<<W("ORG"), Nm(0)>>, FALSE), Ln(<<W("ORG"), Nm(1)>>, FALSE), Ln(<<W("ORG"), Nm(-1)>>, FALSE),
  Ln(<<W("ORG"), <<"x">>>>, FALSE), Ln(<<W("ORG")>>, FALSE), Ln(<<W("ORG"), Nm(1), Nm(2)>>, FALSE),
  Ln(<<W("END")>>, FALSE), Ln(<<W("END"), Nm(0)>>, FALSE), Ln(<<W("END"), Nm(1)>>, FALSE),
  Ln(<<W("END"), Nm(-1)>>, FALSE), Ln(<<W("END"), Nm(9)>>, FALSE), Ln(<<W("END"), Nm(1), Nm(2)>>, FALSE),
  Ln(<< >>, FALSE),                                                   \* blank / comment line
  Ln(<< >>, TRUE),                                                    \* a line of commas only: neither blank nor a comment
  Ln(<<W("HELLO")>>, FALSE) }

IsNum(x) == x[1] = "n"
Modes(d) == IF d = 88 THEN Modes88 ELSE Modes94

\* ReadInstr: a five-field line -> instruction or error
Instr(l, d, M) ==
  LET f == l.f IN
  IF ~l.comma THEN [ok |-> FALSE]
  ELSE IF d = 94 THEN
         IF f[1][1] # "opm" \/ f[1][2] \notin Ops94 \/ f[1][3] \notin Mods94 THEN [ok |-> FALSE]
         ELSE IF f[2][1] # "m" \/ f[2][2] \notin Modes94 \/ ~IsNum(f[3]) \/ f[4][1] # "m" \/ f[4][2] \notin Modes94 \/ ~IsNum(f[5]) THEN [ok |-> FALSE]
         ELSE [ok |-> TRUE, ins |-> [op |-> f[1][2], mod |-> f[1][3], am |-> f[2][2], a |-> ModM(f[3][2], M), bm |-> f[4][2], b |-> ModM(f[5][2], M)]]
       ELSE
         IF f[1][1] # "w" \/ f[1][2] \notin Ops88 THEN [ok |-> FALSE]
         ELSE IF f[2][1] # "m" \/ f[2][2] \notin Modes88 \/ ~IsNum(f[3]) \/ f[4][1] # "m" \/ f[4][2] \notin Modes88 \/ ~IsNum(f[5]) THEN [ok |-> FALSE]
         ELSE LET i == [op |-> f[1][2], mod |-> Default88(f[1][2], f[2][2], f[4][2]), am |-> f[2][2], a |-> ModM(f[3][2], M), bm |-> f[4][2], b |-> ModM(f[5][2], M)]
              IN IF Legal88(i) THEN [ok |-> TRUE, ins |-> i] ELSE [ok |-> FALSE]

\* the line machine; st = [code, start, stop (end marker seen), err]
RECURSIVE ReadLines(_, _, _, _, _)
ReadLines(lines, k, st, d, M) ==
  IF k > Len(lines) \/ st.stop \/ st.err THEN st
  ELSE LET l == lines[k]  f == l.f  n == Len(f) IN
       IF n = 0 /\ ~l.comma THEN ReadLines(lines, k + 1, st, d, M)                         \* ReadBlank / ReadComment
       ELSE IF n = 0 THEN [st EXCEPT !.err = TRUE]                                           \* ReadBad: commas only
       ELSE IF n = 5 THEN LET r == Instr(l, d, M) IN                                        \* ReadInstr
                          IF r.ok THEN ReadLines(lines, k + 1, [st EXCEPT !.code = Append(@, r.ins)], d, M)
                          ELSE [st EXCEPT !.err = TRUE]
       ELSE IF f[1] = W("END") THEN                                                          \* ReadEnd
              IF d = 94 THEN (IF n = 1 THEN [st EXCEPT !.stop = TRUE] ELSE [st EXCEPT !.err = TRUE])
              ELSE IF n = 1 THEN [st EXCEPT !.stop = TRUE]
              ELSE IF n > 2 \/ ~IsNum(f[2]) \/ f[2][2] < 0 \/ f[2][2] > Len(st.code) THEN [st EXCEPT !.err = TRUE]
              ELSE [st EXCEPT !.start = f[2][2], !.stop = TRUE]
       ELSE IF f[1] = W("ORG") THEN                                                          \* ReadOrg
              IF n # 2 \/ ~IsNum(f[2]) \/ f[2][2] < 0 THEN [st EXCEPT !.err = TRUE]
              ELSE ReadLines(lines, k + 1, [st EXCEPT !.start = f[2][2]], d, M)
       ELSE [st EXCEPT !.err = TRUE]                                                         \* ReadBad

Read(lines, d, M) ==
  LET st == ReadLines(lines, 1, [code |-> << >>, start |-> 0, stop |-> FALSE, err |-> FALSE], d, M)
      \* final entry-point check: inside the code; the '94 reader refuses an empty file, the '88 reader allows (empty, 0)
      bad == IF d = 94 THEN st.start >= Len(st.code) ELSE (st.start # 0 /\ st.start >= Len(st.code))
  IN [err |-> st.err \/ bad, code |-> st.code, start |-> st.start]

Seqs(m) == UNION { [1..n -> Shapes] : n \in 0..m }
VARIABLE in
Init == \E s \in Seqs(L), d \in {88, 94} : in = [lines |-> s, d |-> d]
Next == UNCHANGED in
\* spec |= property (C10): whatever the reader accepts is well-formed and legal, and nothing is skipped silently
Sound == LET r == Read(in.lines, in.d, 80) IN
         ~r.err => /\ WellFormedW(r.code, r.start, 80, 1000000)
                   /\ in.d = 88 => \A k \in 1..Len(r.code) : Legal88(r.code[k])
Emit == EMIT => PrintT(<<"CASE", ToJson([lines |-> in.lines, d |-> in.d, M |-> 80, out |-> Read(in.lines, in.d, 80)])>>)
=============================================================================
