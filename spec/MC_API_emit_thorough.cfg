INIT Init
NEXT Next
VIEW view
CONSTANTS
  M = 4
  P = 2
  C = 4
  MaxW = 3
  EMIT = TRUE
INVARIANTS Emit Safe ResetEqualsFresh RunStops BadSpawnNoChange AliveSpawnRefused
CHECK_DEADLOCK FALSE
