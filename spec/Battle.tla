------------------------------ MODULE Battle ------------------------------
EXTENDS MARSCore, TLC
CONSTANTS M, P, MAXC
cfgs == {[M |-> M, RL |-> r, WL |-> w] : r \in {M, 2}, w \in {M, 3}}
Blank == [op |-> "DAT", mod |-> "F", am |-> "$", a |-> 0, bm |-> "$", b |-> 0]
I(op, mod, am, a, bm, b) == [op |-> op, mod |-> mod, am |-> am, a |-> a, bm |-> bm, b |-> b]
Pool == { I("MOV","I","$",0,"$",1), I("SPL","B","$",0,"<",1), I("DJN","F","$",M-1,">",2), I("JMP","B","@",1,"{",2),
          I("ADD","AB","#",3,"$",M-1), I("DAT","F","<",1,"#",0), I("MOV","X","}",1,"*",2), I("DIV","F","$",1,"$",2),
          I("SNE","I","$",1,"@",0), I("JMZ","BA","<",2,"$",1), I("NOP","F","}",0,">",0), I("SLT","A","#",2,"*",1) }
VARIABLES core, q, alive, cycle, living, cfg
vars == <<core, q, alive, cycle, living, cfg>>
Cap(s) == IF Len(s) > P THEN SubSeq(s, 1, P) ELSE s
Init == \E c \in cfgs, i1 \in Pool, i2 \in Pool, j1 \in Pool, o \in 2..M-1 :
          /\ cfg = c
          /\ core = [a \in 0..M-1 |-> IF a = 0 THEN i1 ELSE IF a = 1 THEN i2 ELSE IF a = o THEN j1 ELSE Blank]
          /\ q = << <<0>>, <<o>> >> /\ alive = <<TRUE, TRUE>> /\ cycle = 0 /\ living = 2
\* fold over warriors 1..2 with early stop
RECURSIVE Cyc(_, _)
Cyc(i, st) ==
  IF i > 2 THEN [st EXCEPT !.cycle = @ + 1]
  ELSE IF ~st.alive[i] THEN Cyc(i + 1, st)
  ELSE LET pc == Head(st.q[i])
           r  == ExecTask(st.core, pc, cfg)
           nq == Cap(Tail(st.q[i]) \o r.push)
           dead == nq = << >>
           st2 == [st EXCEPT !.core = r.core, !.q[i] = nq, !.alive[i] = ~dead, !.living = IF dead THEN @ - 1 ELSE @]
       IN IF dead /\ st2.living = 1 THEN st2 ELSE Cyc(i + 1, st2)
RunCycle ==
  /\ cycle < MAXC /\ living >= 2
  /\ LET s == Cyc(1, [core |-> core, q |-> q, alive |-> alive, cycle |-> cycle, living |-> living]) IN
       /\ core' = s.core /\ q' = s.q /\ alive' = s.alive /\ cycle' = s.cycle /\ living' = s.living
  /\ UNCHANGED cfg
Next == RunCycle
Inv == /\ \A i \in 1..2 : Len(q[i]) <= P /\ (alive[i] <=> q[i] # << >>) /\ \A k \in 1..Len(q[i]) : q[i][k] \in 0..M-1
       /\ \A a \in 0..M-1 : core[a].a \in 0..M-1 /\ core[a].b \in 0..M-1
       /\ living = Cardinality({i \in 1..2 : alive[i]}) /\ cycle <= MAXC
=============================================================================
