INIT Init
NEXT Next
