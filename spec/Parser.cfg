CONSTANTS
  L = 4
  EMIT = FALSE
INIT Init
NEXT Next
INVARIANTS CodeLinesInOrder
CHECK_DEADLOCK FALSE
