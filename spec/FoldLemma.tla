------------------------------ MODULE FoldLemma ------------------------------
(***************************************************************************)
(* Unbounded proof (TLAPS) of the folding lemma behind C11: for every core  *)
(* size M, every limit 1 <= lim <= M and every pointer p >= 0, Fold(p,lim,M)*)
(* is an address in [0, M) within circular distance floor(lim/2) of 0; and  *)
(* with lim = M folding is plain reduction modulo M.                        *)
(* The only facts used about % and \div are their defining bounds, stated   *)
(* as assumptions of the lemma (r = p % lim, h = lim \div 2).               *)
(***************************************************************************)
EXTENDS Integers, TLAPS

\* Fold with the quotient/remainder made explicit: r stands for p % lim, h for lim \div 2
FoldR(r, h, lim, M) == IF r > h THEN r + (M - lim) ELSE r
Dist0(x, M) == IF x > M - x THEN M - x ELSE x      \* circular distance of address x from address 0

THEOREM FoldBound ==
  ASSUME NEW M \in Nat, NEW lim \in Nat, NEW r \in Nat, NEW h \in Nat,
         1 <= lim, lim <= M,
         r < lim,                         \* r = p % lim
         2 * h <= lim, lim <= 2 * h + 1   \* h = lim \div 2
  PROVE  /\ FoldR(r, h, lim, M) \in 0..(M - 1)
         /\ Dist0(FoldR(r, h, lim, M), M) <= h
  BY DEF FoldR, Dist0

THEOREM FoldNoLimit ==
  ASSUME NEW M \in Nat, NEW r \in Nat, NEW h \in Nat, 1 <= M, r < M, 2 * h <= M, M <= 2 * h + 1
  PROVE  FoldR(r, h, M, M) = r
  BY DEF FoldR

\* The operator of MARSCore.tla itself, linked to FoldR through the defining bounds of % and \div
Fold(p, lim, M) == LET r == p % lim IN IF r > (lim \div 2) THEN r + (M - lim) ELSE r

THEOREM FoldIsFoldR ==
  ASSUME NEW M \in Nat, NEW lim \in Nat, NEW p \in Nat, 1 <= lim
  PROVE  Fold(p, lim, M) = FoldR(p % lim, lim \div 2, lim, M)
  BY DEF Fold, FoldR

THEOREM FoldLemma ==
  ASSUME NEW M \in Nat, NEW lim \in Nat, NEW p \in Nat, 1 <= lim, lim <= M
  PROVE  /\ Fold(p, lim, M) \in 0..(M - 1)
         /\ Dist0(Fold(p, lim, M), M) <= lim \div 2
  <1> DEFINE r == p % lim
  <1> DEFINE h == lim \div 2
  <1>1. r \in Nat /\ r < lim
    BY Z3
  <1>2. h \in Nat /\ 2 * h <= lim /\ lim <= 2 * h + 1
    BY Z3
  <1>3. Fold(p, lim, M) = FoldR(r, h, lim, M)
    BY FoldIsFoldR
  <1>4. /\ FoldR(r, h, lim, M) \in 0..(M - 1)
        /\ Dist0(FoldR(r, h, lim, M), M) <= h
    BY <1>1, <1>2, FoldBound
  <1> QED BY <1>3, <1>4
=============================================================================
