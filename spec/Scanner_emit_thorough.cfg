CONSTANTS
  L = 5
  EMIT = TRUE
INIT Init
NEXT Next
INVARIANTS ErrIffRedefined Emit
CHECK_DEADLOCK FALSE
