CONSTANTS
  L = 4
  EMIT = TRUE
INIT Init
NEXT Next
INVARIANTS Sound Emit
CHECK_DEADLOCK FALSE
