CONSTANTS
  L = 4
  EMIT = TRUE
INIT Init
NEXT Next
INVARIANTS ErrIffRedefined Emit
CHECK_DEADLOCK FALSE
