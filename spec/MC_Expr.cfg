INIT Init
NEXT Next
CONSTANTS
  D = 2
INVARIANT Agree
CHECK_DEADLOCK FALSE
