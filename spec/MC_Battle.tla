------------------------------ MODULE MC_Battle ------------------------------
(***************************************************************************)
(* Spec |= property for whole battles, small scope, exhaustive:            *)
(* 1..3 warriors of 1..2 instructions from a hostile pool on a tiny core,  *)
(* several limit pairs, process limits and cycle limits.                   *)
(*   Safe       the C04 invariants hold in every reachable state           *)
(*   RefAgree   one cycle of MARS.tla = one round of an independently      *)
(*              written flat pMARS-style scheduler (turn pointer, one task  *)
(*              at a time, warriorsLeft)                       (C02)       *)
(*   CycleProps each living warrior runs exactly one task, the executed PC  *)
(*              is the head of its queue, pushes go to the tail capped at P,*)
(*              death iff empty queue, early stop rule         (C02)       *)
(*   RunIsStepping  RunW = iterating RunCycleW to a fixed point (C02)      *)
(*   RotInv     one cycle commutes with rotation of the core   (C12)       *)
(*   EvProps    report-stream properties of the reference events (C15)     *)
(***************************************************************************)
EXTENDS MARS, TLC
CONSTANTS M, MaxW, Ps, Cs, PoolN

HPool == << Ins("MOV","I","$",0,"$",1), Ins("SPL","B","$",0,"<",1), Ins("DAT","F","<",1,"#",0),
            Ins("DJN","F","$",M-1,">",2 % M), Ins("JMP","B","@",1,"{",2 % M), Ins("DIV","F","$",1,"$",2 % M),
            Ins("ADD","AB","#",3 % M,"$",M-1), Ins("MOV","X","}",1,"*",2 % M), Ins("SNE","I","$",1,"@",0),
            Ins("JMZ","BA","<",2 % M,"$",1), Ins("NOP","F","}",0,">",0), Ins("SLT","A","#",2 % M,"*",1),
            Ins("MOD","X","@",1,"<",M-1), Ins("SPL","B","#",0,"}",1), Ins("MUL","I","*",M-1,"@",1), Ins("SEQ","F","{",0,"$",0) >>
Pool == {HPool[i] : i \in 1..PoolN}
Limits == {<<M, M>>, <<2, 3>>, <<1, M>>, <<M, 1>>}
Warriors == {[code |-> <<i>>, start |-> 0] : i \in Pool}
            \cup {[code |-> <<i, j>>, start |-> s] : i \in Pool, j \in {HPool[1], HPool[2], HPool[3]}, s \in {0, 1}}

VARIABLES S, stage
\* two stages so that TLC's workers share the enumeration of initial battles
Init == /\ stage = 0
        /\ \E lim \in Limits, p \in Ps, c \in Cs, n \in 1..MaxW, w1 \in Warriors :
             S = [lim |-> lim, p |-> p, c |-> c, n |-> n, w1 |-> w1]
Start == /\ stage = 0 /\ stage' = 1
         /\ \E ws \in [2..S.n -> Warriors], offs \in [1..S.n -> 0..M-1] :
              LET S0 == NewState([M |-> M, P |-> S.p, C |-> S.c, RL |-> S.lim[1], WL |-> S.lim[2]])
                  S1 == AddW(S0, S.w1)
                  S2 == IF S.n >= 2 THEN AddW(S1, ws[2]) ELSE S1
                  S3 == IF S.n >= 3 THEN AddW(S2, ws[3]) ELSE S2
                  T1 == SpawnW(S3, 0, offs[1]).S
                  T2 == IF S.n >= 2 THEN SpawnW(T1, 1, offs[2]).S ELSE T1
                  T3 == IF S.n >= 3 THEN SpawnW(T2, 2, offs[3]).S ELSE T2
              IN S' = T3
Step == stage = 1 /\ InProgress(S) /\ S' = CycleW(S).S /\ UNCHANGED stage
Next == Start \/ Step

Safe == stage = 1 => SafeState(S)

\* ---- independent flat scheduler (pMARS style): a turn pointer walks over the warriors, executing one
\* task of each living one; it stops as soon as warriorsLeft drops to 1 (multi-warrior) and counts a round
\* only when the pointer wraps.
RECURSIVE RefRound(_, _, _, _, _, _)
RefRound(core, qs, alive, left, turn, n) ==
  IF turn > n THEN [core |-> core, qs |-> qs, alive |-> alive, left |-> left, counted |-> TRUE]
  ELSE IF ~alive[turn] THEN RefRound(core, qs, alive, left, turn + 1, n)
  ELSE LET pc == qs[turn][1]
           r  == ExecTask(core, pc, S)
           rest == SubSeq(qs[turn], 2, Len(qs[turn]))
           room == S.P - Len(rest)
           add  == IF Len(r.push) <= room THEN r.push ELSE SubSeq(r.push, 1, room)
           q2 == rest \o add
           qs2 == [qs EXCEPT ![turn] = q2]
       IN IF q2 = << >>
          THEN LET al2 == [alive EXCEPT ![turn] = FALSE] IN
               IF n > 1 /\ left - 1 = 1
               THEN [core |-> r.core, qs |-> qs2, alive |-> al2, left |-> left - 1, counted |-> FALSE]
               ELSE RefRound(r.core, qs2, al2, left - 1, turn + 1, n)
          ELSE RefRound(r.core, qs2, alive, left, turn + 1, n)
RefAgree == (stage = 1 /\ InProgress(S)) =>
    LET c == CycleW(S)
        r == RefRound(S.core, S.wq, [i \in 1..N(S) |-> S.ws[i] = "alive"], S.living, 1, N(S))
    IN /\ c.S.core = r.core /\ c.S.wq = r.qs /\ c.S.living = r.left
       /\ \A i \in 1..N(S) : (c.S.ws[i] = "alive") = r.alive[i]
       /\ c.S.cycle = S.cycle + (IF r.counted THEN 1 ELSE 0)
       /\ c.early = ~r.counted

CycleProps == (stage = 1 /\ InProgress(S)) =>
    LET c == CycleW(S) IN
    \* every task executed is the head of a living warrior's queue, in loading order, at most one each
    /\ \A k \in 1..Len(c.tasks) : S.ws[c.tasks[k].w + 1] = "alive" /\ c.tasks[k].pc = Head(S.wq[c.tasks[k].w + 1])
    /\ \A k \in 1..Len(c.tasks) - 1 : c.tasks[k].w < c.tasks[k+1].w
    \* unless stopped early, every living warrior ran
    /\ ~c.early => {c.tasks[k].w + 1 : k \in 1..Len(c.tasks)} = {i \in 1..N(S) : S.ws[i] = "alive"}
    /\ \A k \in 1..Len(c.tasks) :
         LET i == c.tasks[k].w + 1 IN
         /\ c.S.wq[i] = CapQ(Tail(S.wq[i]) \o c.tasks[k].push, S.P)
         /\ (c.S.ws[i] = "dead") <=> (c.S.wq[i] = << >>)
    \* warriors that did not run are untouched
    /\ \A i \in 1..N(S) : i \notin {c.tasks[k].w + 1 : k \in 1..Len(c.tasks)} => c.S.wq[i] = S.wq[i] /\ c.S.ws[i] = S.ws[i]
    /\ c.early <=> (N(S) > 1 /\ c.S.living = 1 /\ c.S.cycle = S.cycle)
    /\ ~c.early => c.S.cycle = S.cycle + 1

RunIsStepping == stage = 1 =>
  LET R == RunW(S) IN ~InProgress(R) /\ (InProgress(S) => RunW(CycleW(S).S) = R) /\ (~InProgress(S) => R = S)

RotInv == (stage = 1 /\ InProgress(S)) => \A k \in {1, M - 1} : CycleW(Rotate(S, k)).S = Rotate(CycleW(S).S, k)

EvProps == (stage = 1 /\ InProgress(S)) =>
    LET c == CycleW(S) IN
    \A k \in 1..Len(c.tasks) :
      /\ \A j \in 1..Len(c.tasks[k].ev) : c.tasks[k].ev[j][2] \in 0..M-1
      /\ ((\E j \in 1..Len(c.tasks[k].ev) : c.tasks[k].ev[j][1] = "Term") <=> c.tasks[k].push = << >>)
=============================================================================
