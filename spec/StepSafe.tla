------------------------------ MODULE StepSafe ------------------------------
(***************************************************************************)
(* Unbounded proofs (TLAPS) about the reference interpreter MARSCore.tla    *)
(* itself: for EVERY core size M >= 1 the values it computes stay inside    *)
(* the data model (C04/C06 at the level of the specification, which TLC     *)
(* checks only for small M in MC_Step).                                     *)
(***************************************************************************)
EXTENDS MARSCore, TLAPS

Addr(M) == 0..(M - 1)
InsT(M) == [op : Ops, mod : Mods, am : Modes, a : Addr(M), bm : Modes, b : Addr(M)]

\* facts about % and \div on naturals, discharged by the SMT back end
LEMMA ModRange == ASSUME NEW a \in Int, NEW m \in Nat, m >= 1 PROVE a % m \in 0..(m - 1)
  BY Z3
LEMMA DivRange == ASSUME NEW y \in Nat, NEW x \in Nat, x >= 1 PROVE y \div x \in 0..y
  BY Z3

\* every arithmetic result is an address
THEOREM ArithSafe ==
  ASSUME NEW M \in Nat, M >= 1, NEW x \in Addr(M), NEW y \in Addr(M),
         NEW op \in {"ADD","SUB","MUL","DIV","MOD"}, (op \in {"DIV","MOD"}) => x # 0
  PROVE  Arith(op, x, y, M) \in Addr(M)
  <1>1. CASE op = "ADD" BY <1>1, ModRange DEF Arith, Addr
  <1>2. CASE op = "SUB" BY <1>2, ModRange DEF Arith, Addr
  <1>3. CASE op = "MUL"
    <2>1. y * x \in Int BY DEF Addr
    <2> QED BY <1>3, <2>1, ModRange DEF Arith, MulMod, Addr
  <1>4. CASE op = "DIV"
    <2>1. x \in Nat /\ x >= 1 /\ y \in Nat BY <1>4 DEF Addr
    <2>2. y \div x \in 0..y BY <2>1, DivRange
    <2> QED BY <1>4, <2>2 DEF Arith, Addr
  <1>5. CASE op = "MOD"
    <2>1. x \in Nat /\ x >= 1 /\ y \in Nat BY <1>5 DEF Addr
    <2>2. y % x \in 0..(x - 1) BY <2>1, ModRange
    <2> QED BY <1>5, <2>1, <2>2 DEF Arith, Addr
  <1> QED BY <1>1, <1>2, <1>3, <1>4, <1>5

CoreT(M) == [Addr(M) -> InsT(M)]
OpdT(M) == [core : CoreT(M), rp : Addr(M), wp : Addr(M), pip : Addr(M) \cup {-1}, f : {"A","B"}, dec : Addr(M) \cup {-1}, pr : SUBSET Addr(M)]

LEMMA FieldT == ASSUME NEW M \in Nat, NEW i \in InsT(M), NEW f \in {"A","B"} PROVE Field(i, f) \in Addr(M)
  BY DEF Field, InsT
LEMMA SetFieldT == ASSUME NEW M \in Nat, NEW i \in InsT(M), NEW f \in {"A","B"}, NEW v \in Addr(M) PROVE SetField(i, f, v) \in InsT(M)
  BY DEF SetField, InsT

\* operand evaluation yields addresses and leaves the core well-typed, whatever the two folding functions are,
\* as long as they return addresses
THEOREM OperandSafe ==
  ASSUME NEW M \in Nat, M >= 1, NEW core \in CoreT(M), NEW pc \in Addr(M), NEW mode \in Modes, NEW val \in Addr(M),
         NEW FR(_), NEW FW(_), \A p \in Int : FR(p) \in Addr(M) /\ FW(p) \in Addr(M)
  PROVE  OperandG(core, pc, mode, val, M, FR, FW) \in OpdT(M)
  <1>1. CASE mode = "#"
    <2>1. 0 \in Addr(M) /\ -1 \in Addr(M) \cup {-1} /\ {} \in SUBSET Addr(M) BY DEF Addr
    <2>2. OperandG(core, pc, mode, val, M, FR, FW) = [core |-> core, rp |-> 0, wp |-> 0, pip |-> -1, f |-> "B", dec |-> -1, pr |-> {}]
      BY <1>1 DEF OperandG
    <2> QED BY <2>1, <2>2 DEF OpdT
  <1>2. CASE mode = "$"
    <2>1. FR(val) \in Addr(M) /\ FW(val) \in Addr(M) BY DEF Addr
    <2> QED BY <1>2, <2>1 DEF OperandG, OpdT, Addr
  <1>3. CASE mode \notin {"#", "$"}
    <2> DEFINE rp0 == FR(val)
               wp0 == FW(val)
               f   == IndField(mode)
               da  == (pc + wp0) % M
               ra  == (pc + rp0) % M
               c1  == IF IsPre(mode) THEN [core EXCEPT ![da] = SetField(@, f, (Field(@, f) + M - 1) % M)] ELSE core
    <2>1. rp0 \in Addr(M) /\ wp0 \in Addr(M) BY DEF Addr
    <2>2. f \in {"A","B"} BY DEF IndField
    <2>3. da \in Addr(M) /\ ra \in Addr(M) BY <2>1, ModRange DEF Addr
    <2>4. c1 \in CoreT(M)
      <3>1. Field(core[da], f) \in Addr(M) BY <2>2, <2>3, FieldT DEF CoreT
      <3>2. (Field(core[da], f) + M - 1) % M \in Addr(M) BY <3>1, ModRange DEF Addr
      <3>3. SetField(core[da], f, (Field(core[da], f) + M - 1) % M) \in InsT(M) BY <2>2, <2>3, <3>2, SetFieldT DEF CoreT
      <3> QED BY <2>3, <3>3 DEF CoreT
    <2>5. Field(c1[ra], f) \in Addr(M) /\ Field(c1[da], f) \in Addr(M) BY <2>2, <2>3, <2>4, FieldT DEF CoreT
    <2>6. FR(rp0 + Field(c1[ra], f)) \in Addr(M) /\ FW(wp0 + Field(c1[da], f)) \in Addr(M) BY <2>1, <2>5 DEF Addr
    <2> QED BY <1>3, <2>2, <2>3, <2>4, <2>6 DEF OperandG, OpdT, Addr
  <1> QED BY <1>1, <1>2, <1>3

LEMMA PostIncSafe ==
  ASSUME NEW M \in Nat, M >= 1, NEW core \in CoreT(M), NEW o \in OpdT(M)
  PROVE  PostInc(core, o, M) \in CoreT(M)
  <1>1. CASE o.pip = -1 BY <1>1 DEF PostInc
  <1>2. CASE o.pip # -1
    <2>1. o.pip \in Addr(M) /\ o.f \in {"A","B"} BY <1>2 DEF OpdT
    <2>2. Field(core[o.pip], o.f) \in Addr(M) BY <2>1, FieldT DEF CoreT
    <2>3. (Field(core[o.pip], o.f) + 1) % M \in Addr(M) BY <2>2, ModRange DEF Addr
    <2>4. SetField(core[o.pip], o.f, (Field(core[o.pip], o.f) + 1) % M) \in InsT(M) BY <2>1, <2>3, SetFieldT DEF CoreT
    <2> QED BY <1>2, <2>1, <2>4 DEF PostInc, CoreT
  <1> QED BY <1>1, <1>2

ResT(M) == [core : CoreT(M), push : Seq(Addr(M)), ev : Seq(Seq(STRING \cup Int)), wab : Addr(M), rab : Addr(M), rbb : Addr(M), reads : SUBSET Addr(M)]

\* the prelude of a task: both operands evaluated, both post-increments applied
THEOREM PreludeSafe ==
  ASSUME NEW M \in Nat, M >= 1, NEW core0 \in CoreT(M), NEW pc \in Addr(M),
         NEW FR(_), NEW FW(_), \A p \in Int : FR(p) \in Addr(M) /\ FW(p) \in Addr(M)
  PROVE  LET IR  == core0[pc]
             oa  == OperandG(core0, pc, IR.am, IR.a, M, FR, FW)
             c2  == PostInc(oa.core, oa, M)
             ob  == OperandG(c2, pc, IR.bm, IR.b, M, FR, FW)
             c4  == PostInc(ob.core, ob, M)
         IN /\ oa \in OpdT(M) /\ ob \in OpdT(M) /\ c2 \in CoreT(M) /\ c4 \in CoreT(M)
            /\ oa.core[(pc + oa.rp) % M] \in InsT(M) /\ ob.core[(pc + ob.rp) % M] \in InsT(M)
            /\ (pc + ob.wp) % M \in Addr(M) /\ (pc + oa.rp) % M \in Addr(M) /\ (pc + ob.rp) % M \in Addr(M)
            /\ (pc + 1) % M \in Addr(M) /\ (pc + 2) % M \in Addr(M)
  <1> DEFINE IR  == core0[pc]
             oa  == OperandG(core0, pc, IR.am, IR.a, M, FR, FW)
             c2  == PostInc(oa.core, oa, M)
             ob  == OperandG(c2, pc, IR.bm, IR.b, M, FR, FW)
             c4  == PostInc(ob.core, ob, M)
  <1>1. IR \in InsT(M) BY DEF CoreT
  <1>2. IR.am \in Modes /\ IR.a \in Addr(M) /\ IR.bm \in Modes /\ IR.b \in Addr(M) BY <1>1 DEF InsT
  <1>3. oa \in OpdT(M) BY <1>2, OperandSafe
  <1>4. oa.core \in CoreT(M) BY <1>3 DEF OpdT
  <1>5. c2 \in CoreT(M) BY <1>3, <1>4, PostIncSafe
  <1>6. ob \in OpdT(M) BY <1>2, <1>5, OperandSafe
  <1>7. ob.core \in CoreT(M) BY <1>6 DEF OpdT
  <1>8. c4 \in CoreT(M) BY <1>6, <1>7, PostIncSafe
  <1>9. (pc + oa.rp) % M \in Addr(M) /\ (pc + ob.rp) % M \in Addr(M) /\ (pc + ob.wp) % M \in Addr(M)
        /\ (pc + 1) % M \in Addr(M) /\ (pc + 2) % M \in Addr(M)
    <2>1. oa.rp \in Addr(M) /\ ob.rp \in Addr(M) /\ ob.wp \in Addr(M) BY <1>3, <1>6 DEF OpdT
    <2>2. pc + oa.rp \in Int /\ pc + ob.rp \in Int /\ pc + ob.wp \in Int /\ pc + 1 \in Int /\ pc + 2 \in Int BY <2>1 DEF Addr
    <2>3. (pc + oa.rp) % M \in Addr(M) BY <2>2, ModRange DEF Addr
    <2>4. (pc + ob.rp) % M \in Addr(M) BY <2>2, ModRange DEF Addr
    <2>5. (pc + ob.wp) % M \in Addr(M) BY <2>2, ModRange DEF Addr
    <2>6. (pc + 1) % M \in Addr(M) BY <2>2, ModRange DEF Addr
    <2>7. (pc + 2) % M \in Addr(M) BY <2>2, ModRange DEF Addr
    <2> QED BY <2>3, <2>4, <2>5, <2>6, <2>7
  <1>10. oa.core[(pc + oa.rp) % M] \in InsT(M) /\ ob.core[(pc + ob.rp) % M] \in InsT(M)
    BY <1>4, <1>7, <1>9 DEF CoreT
  <1> QED BY <1>3, <1>5, <1>6, <1>8, <1>9, <1>10

\* opcodes that do not write: the task leaves a well-typed core and queues at most two addresses
THEOREM ExecSafeControl ==
  ASSUME NEW M \in Nat, M >= 1, NEW core0 \in CoreT(M), NEW pc \in Addr(M),
         NEW FR(_), NEW FW(_), \A p \in Int : FR(p) \in Addr(M) /\ FW(p) \in Addr(M),
         core0[pc].op \in {"DAT", "JMP", "SPL", "NOP"}
  PROVE  LET r == ExecTaskG(core0, pc, M, FR, FW)
         IN r.core \in CoreT(M) /\ r.push \in Seq(Addr(M)) /\ Len(r.push) <= 2
  <1> DEFINE IR  == core0[pc]
             oa  == OperandG(core0, pc, IR.am, IR.a, M, FR, FW)
             c2  == PostInc(oa.core, oa, M)
             ob  == OperandG(c2, pc, IR.bm, IR.b, M, FR, FW)
             c4  == PostInc(ob.core, ob, M)
             RAB == (pc + oa.rp) % M
             nx  == (pc + 1) % M
  <1>1. c4 \in CoreT(M) /\ RAB \in Addr(M) /\ nx \in Addr(M) BY PreludeSafe
  <1>2. CASE IR.op = "DAT"
    <2>1. ExecTaskG(core0, pc, M, FR, FW).core = c4 /\ ExecTaskG(core0, pc, M, FR, FW).push = << >> BY <1>2 DEF ExecTaskG
    <2> QED BY <1>1, <2>1
  <1>3. CASE IR.op = "JMP"
    <2>1. ExecTaskG(core0, pc, M, FR, FW).core = c4 /\ ExecTaskG(core0, pc, M, FR, FW).push = <<RAB>> BY <1>3 DEF ExecTaskG
    <2> QED BY <1>1, <2>1
  <1>4. CASE IR.op = "NOP"
    <2>1. ExecTaskG(core0, pc, M, FR, FW).core = c4 /\ ExecTaskG(core0, pc, M, FR, FW).push = <<nx>> BY <1>4 DEF ExecTaskG
    <2> QED BY <1>1, <2>1
  <1>5. CASE IR.op = "SPL"
    <2>1. ExecTaskG(core0, pc, M, FR, FW).core = c4 /\ ExecTaskG(core0, pc, M, FR, FW).push = <<nx, RAB>> BY <1>5 DEF ExecTaskG
    <2> QED BY <1>1, <2>1
  <1> QED BY <1>2, <1>3, <1>4, <1>5

Fld == {"A", "B"}
LEMMA PairsT == ASSUME NEW mod \in Mods
                PROVE  /\ Len(Pairs(mod)) \in {1, 2}
                       /\ \A i \in 1..Len(Pairs(mod)) : Pairs(mod)[i][1] \in Fld /\ Pairs(mod)[i][2] \in Fld /\ Pairs(mod)[i][3] \in Fld
  BY DEF Pairs, Mods, Fld
LEMMA WriteT == ASSUME NEW M \in Nat, NEW c \in CoreT(M), NEW a \in Addr(M), NEW f \in Fld, NEW v \in Addr(M)
                PROVE  [c EXCEPT ![a] = SetField(@, f, v)] \in CoreT(M)
  <1>1. SetField(c[a], f, v) \in InsT(M) BY SetFieldT DEF CoreT, Fld
  <1> QED BY <1>1 DEF CoreT

\* jumps, comparisons: the core is the prelude's, one successor
THEOREM ExecSafeBranch ==
  ASSUME NEW M \in Nat, M >= 1, NEW core0 \in CoreT(M), NEW pc \in Addr(M),
         NEW FR(_), NEW FW(_), \A p \in Int : FR(p) \in Addr(M) /\ FW(p) \in Addr(M),
         core0[pc].op \in {"JMZ", "JMN", "CMP", "SEQ", "SNE", "SLT"}
  PROVE  LET r == ExecTaskG(core0, pc, M, FR, FW)
         IN r.core \in CoreT(M) /\ r.push \in Seq(Addr(M)) /\ Len(r.push) <= 2
  <1> DEFINE IR  == core0[pc]
             oa  == OperandG(core0, pc, IR.am, IR.a, M, FR, FW)
             c2  == PostInc(oa.core, oa, M)
             ob  == OperandG(c2, pc, IR.bm, IR.b, M, FR, FW)
             c4  == PostInc(ob.core, ob, M)
             RAB == (pc + oa.rp) % M
             nx  == (pc + 1) % M
             sk  == (pc + 2) % M
             r   == ExecTaskG(core0, pc, M, FR, FW)
  <1>1. c4 \in CoreT(M) /\ RAB \in Addr(M) /\ nx \in Addr(M) /\ sk \in Addr(M) BY PreludeSafe
  <1>2. r.core = c4 /\ r.push \in {<<RAB>>, <<nx>>, <<sk>>}
    <2>1. CASE IR.op = "JMZ" BY <2>1 DEF ExecTaskG
    <2>2. CASE IR.op = "JMN" BY <2>2 DEF ExecTaskG
    <2>3. CASE IR.op \in {"CMP", "SEQ"} BY <2>3 DEF ExecTaskG
    <2>4. CASE IR.op = "SNE" BY <2>4 DEF ExecTaskG
    <2>5. CASE IR.op = "SLT" BY <2>5 DEF ExecTaskG
    <2> QED BY <2>1, <2>2, <2>3, <2>4, <2>5
  <1> QED BY <1>1, <1>2

\* two successive field writes into one cell keep the core well-typed
LEMMA Write2T == ASSUME NEW M \in Nat, NEW c \in CoreT(M), NEW a \in Addr(M), NEW f1 \in Fld, NEW v1 \in Addr(M), NEW f2 \in Fld, NEW v2 \in Addr(M)
                 PROVE  LET w1 == [c EXCEPT ![a] = SetField(@, f1, v1)] IN
                        w1 \in CoreT(M) /\ [w1 EXCEPT ![a] = SetField(@, f2, v2)] \in CoreT(M)
  <1> DEFINE w1 == [c EXCEPT ![a] = SetField(@, f1, v1)]
  <1>1. w1 \in CoreT(M) BY WriteT
  <1>2. [w1 EXCEPT ![a] = SetField(@, f2, v2)] \in CoreT(M) BY <1>1, WriteT
  <1> QED BY <1>1, <1>2

\* MOV, ADD, SUB, MUL: one or two fields of the target cell are replaced by addresses
THEOREM ExecSafeWrite ==
  ASSUME NEW M \in Nat, M >= 1, NEW core0 \in CoreT(M), NEW pc \in Addr(M),
         NEW FR(_), NEW FW(_), \A p \in Int : FR(p) \in Addr(M) /\ FW(p) \in Addr(M),
         core0[pc].op \in {"MOV", "ADD", "SUB", "MUL"}
  PROVE  LET r == ExecTaskG(core0, pc, M, FR, FW)
         IN r.core \in CoreT(M) /\ r.push \in Seq(Addr(M)) /\ Len(r.push) <= 2
  <1> DEFINE IR  == core0[pc]
             oa  == OperandG(core0, pc, IR.am, IR.a, M, FR, FW)
             IRA == oa.core[(pc + oa.rp) % M]
             c2  == PostInc(oa.core, oa, M)
             ob  == OperandG(c2, pc, IR.bm, IR.b, M, FR, FW)
             IRB == ob.core[(pc + ob.rp) % M]
             c4  == PostInc(ob.core, ob, M)
             WAB == (pc + ob.wp) % M
             nx  == (pc + 1) % M
             prs == Pairs(IR.mod)
             r   == ExecTaskG(core0, pc, M, FR, FW)
  <1>1. c4 \in CoreT(M) /\ WAB \in Addr(M) /\ nx \in Addr(M) /\ IRA \in InsT(M) /\ IRB \in InsT(M) BY PreludeSafe
  <1>2. IR \in InsT(M) BY DEF CoreT
  <1>3. IR.mod \in Mods BY <1>2 DEF InsT
  <1>4. /\ Len(prs) \in {1, 2}
        /\ \A i \in 1..Len(prs) : prs[i][1] \in Fld /\ prs[i][2] \in Fld /\ prs[i][3] \in Fld
    BY <1>3, PairsT
  <1>5. r.push = <<nx>> BY DEF ExecTaskG
  <1>6. CASE IR.op = "MOV" /\ IR.mod = "I"
    <2>1. r.core = [c4 EXCEPT ![WAB] = IRA] BY <1>6 DEF ExecTaskG
    <2> QED BY <1>1, <1>5, <2>1 DEF CoreT
  <1>7. CASE IR.op = "MOV" /\ IR.mod # "I"
    <2> DEFINE v(p) == Field(IRA, p[2])
               w1 == [c4 EXCEPT ![WAB] = SetField(@, prs[1][1], v(prs[1]))]
               w2 == [w1 EXCEPT ![WAB] = SetField(@, prs[2][1], v(prs[2]))]
    <2>1. r.core = IF Len(prs) = 1 THEN w1 ELSE w2 BY <1>7 DEF ExecTaskG
    <2>2. prs[1][1] \in Fld /\ v(prs[1]) \in Addr(M) BY <1>1, <1>4, FieldT DEF Fld
    <2>3. w1 \in CoreT(M) BY <1>1, <2>2, WriteT
    <2>4. CASE Len(prs) = 2
      <3>1. prs[2][1] \in Fld /\ v(prs[2]) \in Addr(M) BY <1>1, <1>4, <2>4, FieldT DEF Fld
      <3>2. w2 \in CoreT(M) BY <1>1, <2>3, <3>1, WriteT
      <3> QED BY <1>5, <1>1, <2>1, <2>4, <3>2
    <2>5. CASE Len(prs) = 1 BY <1>5, <1>1, <2>1, <2>3, <2>5
    <2> QED BY <1>4, <2>4, <2>5
  <1>8. CASE IR.op \in {"ADD", "SUB", "MUL"}
    <2> DEFINE v(p) == Arith(IR.op, Field(IRA, p[2]), Field(IRB, p[3]), M)
               w1 == [c4 EXCEPT ![WAB] = SetField(@, prs[1][1], v(prs[1]))]
               w2 == [w1 EXCEPT ![WAB] = SetField(@, prs[2][1], v(prs[2]))]
    <2>1. r.core = IF Len(prs) = 1 THEN w1 ELSE w2 BY <1>8 DEF ExecTaskG
    <2>2. prs[1][1] \in Fld /\ v(prs[1]) \in Addr(M)
      <3>0. 1 \in 1..Len(prs) BY <1>4
      <3>1. Field(IRA, prs[1][2]) \in Addr(M) /\ Field(IRB, prs[1][3]) \in Addr(M) BY <1>1, <1>4, <3>0, FieldT DEF Fld
      <3>2. prs[1][1] \in Fld BY <1>4, <3>0
      <3>3. IR.op \in {"ADD","SUB","MUL","DIV","MOD"} /\ ~(IR.op \in {"DIV","MOD"}) BY <1>8
      <3>4. Arith(IR.op, Field(IRA, prs[1][2]), Field(IRB, prs[1][3]), M) \in Addr(M) BY <3>1, <3>3, ArithSafe
      <3> QED BY <3>2, <3>4
    <2>3. w1 \in CoreT(M) BY <1>1, <2>2, WriteT
    <2>4. CASE Len(prs) = 2
      <3>1. Field(IRA, prs[2][2]) \in Addr(M) /\ Field(IRB, prs[2][3]) \in Addr(M) BY <1>1, <1>4, <2>4, FieldT DEF Fld
      <3>2. prs[2][1] \in Fld /\ v(prs[2]) \in Addr(M) BY <1>4, <1>8, <2>4, <3>1, ArithSafe
      <3>3. w2 \in CoreT(M) BY <1>1, <2>3, <3>2, WriteT
      <3> QED BY <1>5, <1>1, <2>1, <2>4, <3>3
    <2>5. CASE Len(prs) = 1 BY <1>5, <1>1, <2>1, <2>3, <2>5
    <2> QED BY <1>4, <2>4, <2>5
  <1> QED BY <1>6, <1>7, <1>8

\* DIV, MOD: only fields with a non-zero divisor are replaced; DJN: fields are decremented modulo M
THEOREM ExecSafeDivDjn ==
  ASSUME NEW M \in Nat, M >= 1, NEW core0 \in CoreT(M), NEW pc \in Addr(M),
         NEW FR(_), NEW FW(_), \A p \in Int : FR(p) \in Addr(M) /\ FW(p) \in Addr(M),
         core0[pc].op \in {"DIV", "MOD", "DJN"}
  PROVE  LET r == ExecTaskG(core0, pc, M, FR, FW)
         IN r.core \in CoreT(M) /\ r.push \in Seq(Addr(M)) /\ Len(r.push) <= 2
  <1> DEFINE IR  == core0[pc]
             oa  == OperandG(core0, pc, IR.am, IR.a, M, FR, FW)
             IRA == oa.core[(pc + oa.rp) % M]
             c2  == PostInc(oa.core, oa, M)
             ob  == OperandG(c2, pc, IR.bm, IR.b, M, FR, FW)
             IRB == ob.core[(pc + ob.rp) % M]
             c4  == PostInc(ob.core, ob, M)
             WAB == (pc + ob.wp) % M
             RAB == (pc + oa.rp) % M
             nx  == (pc + 1) % M
             prs == Pairs(IR.mod)
             r   == ExecTaskG(core0, pc, M, FR, FW)
  <1>1. c4 \in CoreT(M) /\ WAB \in Addr(M) /\ RAB \in Addr(M) /\ nx \in Addr(M) /\ IRA \in InsT(M) /\ IRB \in InsT(M) BY PreludeSafe
  <1>2. IR \in InsT(M) BY DEF CoreT
  <1>3. IR.mod \in Mods BY <1>2 DEF InsT
  <1>4. /\ Len(prs) \in {1, 2}
        /\ \A i \in 1..Len(prs) : prs[i][1] \in Fld /\ prs[i][2] \in Fld /\ prs[i][3] \in Fld
    BY <1>3, PairsT
  <1>5. 1 \in 1..Len(prs) BY <1>4
  <1>6. CASE IR.op \in {"DIV", "MOD"}
    <2> DEFINE ok(p) == Field(IRA, p[2]) # 0
               v(p)  == Arith(IR.op, Field(IRA, p[2]), Field(IRB, p[3]), M)
               w1 == IF ok(prs[1]) THEN [c4 EXCEPT ![WAB] = SetField(@, prs[1][1], v(prs[1]))] ELSE c4
               w2 == IF Len(prs) = 2 /\ ok(prs[2]) THEN [w1 EXCEPT ![WAB] = SetField(@, prs[2][1], v(prs[2]))] ELSE w1
    <2>1. r.core = w2 /\ r.push \in {<<nx>>, << >>} BY <1>6 DEF ExecTaskG
    <2>2. w1 \in CoreT(M)
      <3>1. CASE ok(prs[1])
        <4>1. Field(IRA, prs[1][2]) \in Addr(M) /\ Field(IRB, prs[1][3]) \in Addr(M) BY <1>1, <1>4, <1>5, FieldT DEF Fld
        <4>2. IR.op \in {"ADD","SUB","MUL","DIV","MOD"} /\ Field(IRA, prs[1][2]) # 0 BY <1>6, <3>1
        <4>3. v(prs[1]) \in Addr(M) BY <4>1, <4>2, ArithSafe
        <4>4. prs[1][1] \in Fld BY <1>4, <1>5
        <4> QED BY <1>1, <3>1, <4>3, <4>4, WriteT
      <3>2. CASE ~ok(prs[1]) BY <1>1, <3>2
      <3> QED BY <3>1, <3>2
    <2>3. w2 \in CoreT(M)
      <3>1. CASE Len(prs) = 2 /\ ok(prs[2])
        <4>0. 2 \in 1..Len(prs) BY <3>1
        <4>1. Field(IRA, prs[2][2]) \in Addr(M) /\ Field(IRB, prs[2][3]) \in Addr(M) BY <1>1, <1>4, <4>0, FieldT DEF Fld
        <4>2. IR.op \in {"ADD","SUB","MUL","DIV","MOD"} /\ Field(IRA, prs[2][2]) # 0 BY <1>6, <3>1
        <4>3. v(prs[2]) \in Addr(M) BY <4>1, <4>2, ArithSafe
        <4>4. prs[2][1] \in Fld BY <1>4, <4>0
        <4> QED BY <1>1, <2>2, <3>1, <4>3, <4>4, WriteT
      <3>2. CASE ~(Len(prs) = 2 /\ ok(prs[2])) BY <2>2, <3>2
      <3> QED BY <3>1, <3>2
    <2> QED BY <1>1, <2>1, <2>3
  <1>7. CASE IR.op = "DJN"
    <2> DEFINE w1 == [c4 EXCEPT ![WAB] = SetField(@, prs[1][1], (Field(@, prs[1][1]) + M - 1) % M)]
               w2 == IF Len(prs) = 2 THEN [w1 EXCEPT ![WAB] = SetField(@, prs[2][1], (Field(@, prs[2][1]) + M - 1) % M)] ELSE w1
    <2>1. r.core = w2 /\ r.push \in {<<RAB>>, <<nx>>} BY <1>7 DEF ExecTaskG
    <2>2. w1 \in CoreT(M)
      <3>1. prs[1][1] \in Fld BY <1>4, <1>5
      <3>2. Field(c4[WAB], prs[1][1]) \in Addr(M) BY <1>1, <3>1, FieldT DEF CoreT, Fld
      <3>3. (Field(c4[WAB], prs[1][1]) + M - 1) % M \in Addr(M) BY <3>2, ModRange DEF Addr
      <3>4. w1 = [c4 EXCEPT ![WAB] = SetField(c4[WAB], prs[1][1], (Field(c4[WAB], prs[1][1]) + M - 1) % M)] BY <1>1 DEF CoreT
      <3>5. SetField(c4[WAB], prs[1][1], (Field(c4[WAB], prs[1][1]) + M - 1) % M) \in InsT(M) BY <1>1, <3>1, <3>3, SetFieldT DEF CoreT, Fld
      <3> QED BY <1>1, <3>4, <3>5 DEF CoreT
    <2>3. w2 \in CoreT(M)
      <3>1. CASE Len(prs) = 2
        <4>0. 2 \in 1..Len(prs) BY <3>1
        <4>1. prs[2][1] \in Fld BY <1>4, <4>0
        <4>2. Field(w1[WAB], prs[2][1]) \in Addr(M) BY <1>1, <2>2, <4>1, FieldT DEF CoreT, Fld
        <4>3. (Field(w1[WAB], prs[2][1]) + M - 1) % M \in Addr(M) BY <4>2, ModRange DEF Addr
        <4>4. SetField(w1[WAB], prs[2][1], (Field(w1[WAB], prs[2][1]) + M - 1) % M) \in InsT(M) BY <1>1, <2>2, <4>1, <4>3, SetFieldT DEF CoreT, Fld
        <4>5. w2 = [w1 EXCEPT ![WAB] = SetField(w1[WAB], prs[2][1], (Field(w1[WAB], prs[2][1]) + M - 1) % M)] BY <1>1, <2>2, <3>1 DEF CoreT
        <4> QED BY <1>1, <2>2, <4>4, <4>5 DEF CoreT
      <3>2. CASE Len(prs) # 2 BY <2>2, <3>2
      <3> QED BY <3>1, <3>2
    <2> QED BY <1>1, <2>1, <2>3
  <1> QED BY <1>6, <1>7

\* Every opcode: executing one task of a well-typed core at any address, under ANY pair of folding functions that return
\* addresses, leaves a well-typed core and queues at most two addresses - for every core size M >= 1.
THEOREM ExecSafe ==
  ASSUME NEW M \in Nat, M >= 1, NEW core0 \in CoreT(M), NEW pc \in Addr(M),
         NEW FR(_), NEW FW(_), \A p \in Int : FR(p) \in Addr(M) /\ FW(p) \in Addr(M)
  PROVE  LET r == ExecTaskG(core0, pc, M, FR, FW)
         IN r.core \in CoreT(M) /\ r.push \in Seq(Addr(M)) /\ Len(r.push) <= 2
  <1>1. core0[pc].op \in Ops BY DEF CoreT, InsT
  <1>2. CASE core0[pc].op \in {"DAT", "JMP", "SPL", "NOP"} BY <1>2, ExecSafeControl
  <1>3. CASE core0[pc].op \in {"JMZ", "JMN", "CMP", "SEQ", "SNE", "SLT"} BY <1>3, ExecSafeBranch
  <1>4. CASE core0[pc].op \in {"MOV", "ADD", "SUB", "MUL"} BY <1>4, ExecSafeWrite
  <1>5. CASE core0[pc].op \in {"DIV", "MOD", "DJN"} BY <1>5, ExecSafeDivDjn
  <1> QED BY <1>1, <1>2, <1>3, <1>4, <1>5 DEF Ops

\* the folding function of the draft returns an address for every integer pointer
LEMMA FoldAddr == ASSUME NEW M \in Nat, NEW lim \in Nat, 1 <= lim, lim <= M, NEW p \in Int
                  PROVE  Fold(p, lim, M) \in Addr(M)
  <1> DEFINE r == p % lim
  <1>1. r \in 0..(lim - 1) BY ModRange
  <1>2. lim \div 2 \in Nat BY Z3
  <1> QED BY <1>1, <1>2 DEF Fold, Addr

\* ... hence the interpreter with the configured limits (MARSCore!ExecTask), for every core size and every pair of limits
THEOREM ExecTaskSafe ==
  ASSUME NEW M \in Nat, M >= 1, NEW RL \in 1..M, NEW WL \in 1..M, NEW core0 \in CoreT(M), NEW pc \in Addr(M)
  PROVE  LET r == ExecTask(core0, pc, [M |-> M, RL |-> RL, WL |-> WL])
         IN r.core \in CoreT(M) /\ r.push \in Seq(Addr(M)) /\ Len(r.push) <= 2
  <1> DEFINE FRc(p) == Fold(p, RL, M)
             FWc(p) == Fold(p, WL, M)
  <1>1. \A p \in Int : FRc(p) \in Addr(M) /\ FWc(p) \in Addr(M) BY FoldAddr
  <1>2. LET r == ExecTaskG(core0, pc, M, FRc, FWc)
        IN r.core \in CoreT(M) /\ r.push \in Seq(Addr(M)) /\ Len(r.push) <= 2
    <2> HIDE DEF FRc, FWc
    <2> QED BY <1>1, ExecSafe
  <1>3. ExecTask(core0, pc, [M |-> M, RL |-> RL, WL |-> WL]) = ExecTaskG(core0, pc, M, FRc, FWc) BY DEF ExecTask
  <1> QED BY <1>2, <1>3
=============================================================================
