------------------------------ MODULE MC_Asm ------------------------------
(***************************************************************************)
(* Spec |= property for the assembler semantics (C03, C06), small scope,    *)
(* exhaustive: two-instruction programs with a label, an EQU (defined       *)
(* before, between or after its uses), operands drawn from numbers, the     *)
(* label, the EQU name and a predefined name, every opcode, present/absent  *)
(* modes and modifiers, both dialects.                                      *)
(*   Structural   every program that has a meaning is well-formed, and      *)
(*                legal under the '88 rules                        (C06)    *)
(*   EquPlacement the meaning does not depend on where the EQU line is      *)
(*   Rename       nor on how the label and the EQU are spelled     (C03)    *)
(*   Tables       the default-modifier table agrees with a second,          *)
(*                independently organised encoding of the ICWS'94 table     *)
(***************************************************************************)
EXTENDS Asm
CONSTANTS Dialects

n(v) == <<"n", v>>
sy(x) == <<"s", x>>
Operands(lbl, eq) == { <<n(3)>>, <<sy(lbl)>>, <<sy(eq)>>, <<sy(lbl), <<"-">>, n(1)>>, <<sy("CORESIZE"), <<"-">>, n(2)>>, <<<<"-">>, n(1)>> }
OpsOf(d) == IF d = 88 THEN Ops88 ELSE Ops94
ModesOf(d) == (IF d = 88 THEN Modes88 ELSE {"$", "#", "*", ">"}) \cup {""}

Prog(d, op, mod, am, a, bm, b, hasb, pos, lbl, eq) ==
  LET i1 == [t |-> "ins", labels |-> << >>, op |-> op, mod |-> mod, am |-> am, a |-> a, bm |-> bm, b |-> b, hasb |-> hasb]
      i2 == [t |-> "ins", labels |-> <<lbl>>, op |-> "DAT", mod |-> "", am |-> "#", a |-> <<n(0)>>, bm |-> "#", b |-> <<sy(eq)>>, hasb |-> TRUE]
      e  == [t |-> "equ", names |-> <<eq>>, toks |-> <<n(5), <<"+">>, n(2)>>]
      items == CASE pos = 0 -> <<e, i1, i2>> [] pos = 1 -> <<i1, e, i2>> [] pos = 2 -> <<i1, i2, e>>
  IN [dialect |-> d, M |-> 80, L |-> 10, P |-> 8, D |-> 20, items |-> items]

VARIABLE s
Init == \E d \in Dialects : \E op \in OpsOf(d) : s = [stage |-> 0, d |-> d, op |-> op]
Next == /\ s.stage = 0
        /\ \E mod \in (IF s.d = 88 THEN {""} ELSE {"", "X"}), am \in ModesOf(s.d), bm \in ModesOf(s.d), hasb \in BOOLEAN :
           \E a \in Operands("l", "e"), b \in {<<n(7)>>, <<sy("l")>>, <<sy("e"), <<"*">>, n(2)>>} :
              s' = [stage |-> 1, d |-> s.d, op |-> s.op, mod |-> mod, am |-> am, bm |-> (IF hasb THEN bm ELSE ""), a |-> a, b |-> (IF hasb THEN b ELSE << >>), hasb |-> hasb]
P(pos, lbl, eq) == Prog(s.d, s.op, s.mod, s.am, s.a, s.bm, s.b, s.hasb, pos, lbl, eq)
Ren(toks, lbl, eq) == [k \in 1..Len(toks) |-> IF toks[k] = sy("l") THEN sy(lbl) ELSE IF toks[k] = sy("e") THEN sy(eq) ELSE toks[k]]
PR(pos, lbl, eq) == Prog(s.d, s.op, s.mod, s.am, Ren(s.a, lbl, eq), s.bm, Ren(s.b, lbl, eq), s.hasb, pos, lbl, eq)
Core(m) == [err |-> m.err, code |-> m.code, start |-> m.start]

Structural == s.stage = 1 =>
  LET m == Meaning(P(0, "l", "e")) IN
  ~m.err => /\ WellFormedW(m.code, m.start, 80, 10)
            /\ s.d = 88 => \A k \in 1..Len(m.code) : Legal88(m.code[k])
EquPlacement == s.stage = 1 => Core(Meaning(P(0, "l", "e"))) = Core(Meaning(P(1, "l", "e"))) /\ Core(Meaning(P(0, "l", "e"))) = Core(Meaning(P(2, "l", "e")))
Rename == s.stage = 1 => Core(Meaning(PR(1, "Start_2", "x"))) = Core(Meaning(P(1, "l", "e")))

\* the ICWS'94 default-modifier table a second time, organised by modifier rather than by opcode
Table2(op, am, bm) ==
  IF op \in {"DAT"} THEN "F"
  ELSE IF op \in {"JMP","JMZ","JMN","DJN","SPL","NOP"} THEN "B"
  ELSE IF am = "#" THEN "AB"
  ELSE IF op = "SLT" THEN "B"
  ELSE IF bm = "#" THEN "B"
  ELSE IF op \in {"MOV","SEQ","SNE","CMP"} THEN "I" ELSE "F"
Tables == \A op \in Ops94, am \in Modes94, bm \in Modes94 : Default94(op, am, bm) = Table2(op, am, bm)
=============================================================================
