package main

// "queue": replay TLC-generated operation sequences (Queue.tla) on the real process queue (VerifQueueOps).

import (
	"flag"
	"fmt"

	"github.com/bobertlo/gmars"
)

func cmdQueue(args []string) {
	fs := flag.NewFlagSet("queue", flag.ExitOnError)
	in := fs.String("in", "", "ndjson with TLC cases")
	out := fs.String("out", "", "output prefix (mismatches)")
	fs.Parse(args)
	w := newShardWriter(*out, 1)
	n, bad, ops := 0, 0, 0
	for _, c := range readNDJSON(*in) {
		size := jint(c["size"])
		hist := c["hist"].([]interface{})
		var seq []int
		for _, h := range hist {
			seq = append(seq, jint(h.(map[string]interface{})["op"]))
		}
		ops += len(seq)
		pan := ""
		var popped, lens, nexts []int
		var values [][]int
		func() {
			defer func() {
				if e := recover(); e != nil {
					pan = fmt.Sprint(e)
				}
			}()
			popped, lens, values, nexts = gmars.VerifQueueOps(size, seq)
		}()
		n++
		diff := pan
		if diff == "" {
			for k, h := range hist {
				o := h.(map[string]interface{})["obs"].(map[string]interface{})
				if popped[k] != jint(o["popped"]) || lens[k] != jint(o["len"]) || nexts[k] != jint(o["next"]) || intsJSON(values[k]) != intsJSON(jints(o["values"])) {
					diff = fmt.Sprintf("after op %d (%d): got popped=%d len=%d values=%v next=%d, want %s", k, seq[k], popped[k], lens[k], values[k], nexts[k], mustJSON(o))
					break
				}
			}
		}
		if diff != "" {
			bad++
			w.line(fmt.Sprintf(`{"size":%d,"ops":%s,"diff":%s,"case":%s}`, size, intsJSON(seq), jq(diff), mustJSON(c)))
			if bad >= 20 {
				break
			}
		}
	}
	w.close()
	fmt.Printf(`{"cases":%d,"mismatches":%d,"ops":%d}`+"\n", n, bad, ops)
}
