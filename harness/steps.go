package main

// "steps": single-task executions of the real simulator on arbitrary cores.
// One ndjson line per step:
//   {"M","RL","WL","P","pc","pre":[ins..],"d":[[addr,ins]..],"q":[pc..],"panic":""}
// pre  = whole core before, d = cells that differ afterwards (generic diff),
// q    = the warrior's queue afterwards.

import (
	"flag"
	"fmt"
	"math/rand"
	"strings"

	"github.com/bobertlo/gmars"
)

type stepResult struct {
	post  []ins
	q     []int
	alive bool
	pan   string
}

func runStep(m, rl, wl, p, pc int, pre []ins) (res stepResult) {
	defer func() {
		if e := recover(); e != nil {
			res.pan = fmt.Sprint(e)
		}
	}()
	cfg := gmars.SimulatorConfig{Mode: gmars.SimulatorMode((m + rl + wl + p + pc) % 3), CoreSize: gmars.Address(m), Processes: gmars.Address(p),
		Cycles: 1, ReadLimit: gmars.Address(rl), WriteLimit: gmars.Address(wl), Length: gmars.Address(m), Distance: 0}
	sim, err := gmars.NewSimulator(cfg)
	if err != nil {
		res.pan = "config rejected: " + err.Error()
		return
	}
	code := make([]gmars.Instruction, m)
	for i := range pre {
		code[i] = pre[i].g()
	}
	w, _ := sim.AddWarrior(&gmars.WarriorData{Code: code, Start: pc})
	if err := sim.SpawnWarrior(0, 0); err != nil {
		res.pan = "spawn: " + err.Error()
		return
	}
	if (m+rl+2*wl+pc)%4 == 0 {
		// a simulator that has been used before: one cycle, Reset, the same warrior spawned again.  The recorded step
		// must not depend on it (limits, core and queue are those of a fresh simulator)
		sim.RunCycle()
		sim.Reset()
		if err := sim.SpawnWarrior(0, 0); err != nil {
			res.pan = "spawn after reset: " + err.Error()
			return
		}
	}
	sim.RunCycle()
	res.post = make([]ins, m)
	for i := 0; i < m; i++ {
		res.post[i] = fromG(sim.GetMem(gmars.Address(i)))
	}
	res.q = addrsToInts(w.Queue())
	res.alive = w.Alive()
	return
}

func stepLine(m, rl, wl, p, pc int, pre []ins, res stepResult) string {
	var sb strings.Builder
	nonBlank := 0
	for a := range pre {
		if pre[a] != (ins{}) {
			nonBlank++
		}
	}
	if m > 4096 && nonBlank*16 < m {
		// big, mostly empty cores are written sparsely: the cells that differ from the initial DAT.F $0, $0
		// (a dense core stays a plain list: applying thousands of single-cell updates costs TLC a copy of the core each)
		fmt.Fprintf(&sb, `{"M":%d,"RL":%d,"WL":%d,"P":%d,"pc":%d,"sparse":1,"pre":[`, m, rl, wl, p, pc)
		first := true
		for a := range pre {
			if pre[a] != (ins{}) {
				if !first {
					sb.WriteByte(',')
				}
				first = false
				fmt.Fprintf(&sb, "[%d,%s]", a, pre[a].json())
			}
		}
		sb.WriteString(`],"d":[`)
	} else {
		fmt.Fprintf(&sb, `{"M":%d,"RL":%d,"WL":%d,"P":%d,"pc":%d,"pre":%s,"d":[`, m, rl, wl, p, pc, insListJSON(pre))
	}
	first := true
	for a := range res.post {
		if res.post[a] != pre[a] {
			if !first {
				sb.WriteByte(',')
			}
			first = false
			fmt.Fprintf(&sb, "[%d,%s]", a, res.post[a].json())
		}
	}
	al := 0
	if res.alive {
		al = 1
	}
	fmt.Fprintf(&sb, `],"q":%s,"alive":%d,"panic":%q}`, intsJSON(res.q), al, res.pan)
	return sb.String()
}

type stepStats struct {
	n, foldChanged, limited, died, twoPush, panics int
}

func cmdSteps(args []string) {
	fs := flag.NewFlagSet("steps", flag.ExitOnError)
	out := fs.String("out", "steps", "output prefix")
	shards := fs.Int("shards", 8, "number of shard files")
	seed := fs.Int64("seed", 1, "seed")
	msFlag := fs.String("M", "5,8", "core sizes")
	reps := fs.Int("reps", 4, "repetitions per form and core size")
	exh := fs.String("exhaustive", "", "core sizes for which all (a,b) and all (RL,WL) are enumerated for every form")
	big := fs.String("big", "", "core sizes above 65536 for the big-core family (sparse lines)")
	bigN := fs.Int("bign", 60, "steps per big core size")
	lim := fs.Bool("limits", false, "C11 mode: all limit pairs, operands near the limit boundaries")
	fs.Parse(args)
	r := rand.New(rand.NewSource(*seed))
	w := newShardWriter(*out, *shards)
	st := stepStats{}
	emit := func(m, rl, wl, p, pc int, pre []ins) {
		res := runStep(m, rl, wl, p, pc, pre)
		w.line(stepLine(m, rl, wl, p, pc, pre, res))
		w.nextUnit()
		st.n++
		if rl < m || wl < m {
			st.limited++
		}
		if res.pan != "" {
			st.panics++
		}
		if len(res.q) == 0 {
			st.died++
		}
		if len(res.q) == 2 {
			st.twoPush++
		}
	}
	for _, m := range parseInts(*msFlag) {
		for k := 0; k < 7616; k++ {
			for rep := 0; rep < *reps; rep++ {
				pre := genCore(r, m)
				pc := r.Intn(m)
				f := formOf(k)
				f.A, f.B = genField(r, m), genField(r, m)
				pre[pc] = f
				rl, wl := genLimits(r, m)
				emit(m, rl, wl, 1+r.Intn(3), pc, pre)
			}
		}
	}
	// cores beyond 16 bits (and beyond the square root of 2^32): arithmetic on large field values, far pointers
	for _, m := range parseInts(*big) {
		for k := 0; k < *bigN; k++ {
			pre := make([]ins, m)
			pc := []int{0, 1, m - 1, 65535, 65536, m / 2, r.Intn(m)}[r.Intn(7)] % m
			f := formOf(r.Intn(7616))
			if r.Intn(3) != 0 {
				f.Op = 2 + r.Intn(5) // ADD SUB MUL DIV MOD
			}
			bigv := func() int {
				return []int{m - 1, m - 2, 65535, 65536, 65537, m / 2, m/2 + 1, 46341, m - 1 - r.Intn(1000), r.Intn(m), r.Intn(m), 1 + r.Intn(5)}[r.Intn(12)] % m
			}
			f.A, f.B = bigv(), bigv()
			pre[pc] = f
			// the cells the operands can reach, with large fields of their own
			for _, t := range []int{(pc + f.A) % m, (pc + f.B) % m, (pc + 1) % m, (pc + m - 1) % m} {
				if t != pc {
					c := genCell(r, m)
					c.A, c.B = bigv(), bigv()
					pre[t] = c
				}
			}
			for j := 0; j < 6; j++ {
				t := r.Intn(m)
				if t != pc {
					c := genCell(r, m)
					c.A, c.B = bigv(), bigv()
					pre[t] = c
				}
			}
			rl, wl := m, m
			if r.Intn(3) == 0 {
				rl, wl = 1+r.Intn(m), 1+r.Intn(m)
			}
			emit(m, rl, wl, 1+r.Intn(3), pc, pre)
		}
	}
	for _, m := range parseInts(*exh) {
		for k := 0; k < 7616; k++ {
			for a := 0; a < m; a++ {
				for b := 0; b < m; b++ {
					pre := genCore(r, m)
					pc := r.Intn(m)
					f := formOf(k)
					f.A, f.B = a, b
					pre[pc] = f
					// all limit pairs, one fresh neighbour set per (form,a,b)
					for rl := 1; rl <= m; rl++ {
						for wl := 1; wl <= m; wl++ {
							emit(m, rl, wl, 1+r.Intn(3), pc, pre)
						}
					}
				}
			}
		}
	}
	if *lim {
		// C11: operands that land just inside/outside floor(W/2), floor(R/2)
		ops := []ins{{Op: 1, Mod: 6}, {Op: 2, Mod: 0}, {Op: 14, Mod: 0}, {Op: 11, Mod: 2}, {Op: 12, Mod: 0}, {Op: 15, Mod: 2}, {Op: 9, Mod: 6}, {Op: 1, Mod: 5}, {Op: 5, Mod: 0}}
		for _, m := range parseInts(*msFlag) {
			for rl := 1; rl <= m; rl++ {
				for wl := 1; wl <= m; wl++ {
					if m > 16 && r.Intn(m*m/256+1) != 0 {
						continue
					}
					for _, o := range ops {
						for am := 0; am < 8; am++ {
							for bm := 0; bm < 8; bm++ {
								pre := genCore(r, m)
								pc := r.Intn(m)
								f := o
								f.Am, f.Bm = am, bm
								near := func(l int) int {
									c := []int{l / 2, l/2 + 1, m - l/2, m - l/2 - 1, l, l - 1, l + 1}
									return ((c[r.Intn(len(c))] % m) + m) % m
								}
								f.A, f.B = near(rl), near(wl)
								if r.Intn(2) == 0 {
									f.A, f.B = near(wl), near(rl)
								}
								pre[pc] = f
								emit(m, rl, wl, 1+r.Intn(3), pc, pre)
							}
						}
					}
				}
			}
		}
	}
	w.close()
	fmt.Printf(`{"steps":%d,"limited":%d,"died":%d,"twopush":%d,"panics":%d,"shards":%d}`+"\n", st.n, st.limited, st.died, st.twoPush, st.panics, *shards)
}

// steps-replay: re-execute recorded step events (only the inputs are used) and
// write fresh events; used to reproduce a rejection before it is reported.
func cmdStepsReplay(args []string) {
	fs := flag.NewFlagSet("steps-replay", flag.ExitOnError)
	in := fs.String("in", "", "ndjson with events")
	out := fs.String("out", "", "output ndjson")
	fs.Parse(args)
	evs := readNDJSON(*in)
	w := newShardWriter(*out, 1)
	for _, e := range evs {
		m, rl, wl, p, pc := jint(e["M"]), jint(e["RL"]), jint(e["WL"]), jint(e["P"]), jint(e["pc"])
		var pre []ins
		if jint(e["sparse"]) == 1 {
			pre = make([]ins, m)
			for _, c := range e["pre"].([]interface{}) {
				t := c.([]interface{})
				pre[jint(t[0])] = jins(t[1])
			}
		} else {
			pre = jinsList(e["pre"])
		}
		res := runStep(m, rl, wl, p, pc, pre)
		w.line(stepLine(m, rl, wl, p, pc, pre, res))
	}
	w.close()
	fmt.Printf(`{"replayed":%d}`+"\n", len(evs))
}
