package main

// "api": call histories over the public Simulator/Warrior API (C13).
// Exhaustive enumeration of all histories up to a depth over the alphabet
//   AddWarrior(w in pool), SpawnWarrior(i in -1..count+1, off in {0, M-1, M, 2M+3}), RunCycle, Run, Reset
// plus random long histories.  After every call the query methods are called and logged.
// Each history is one trace ("new" first).  No oracle here: TLC decides (BattleTrace mode C13).

import (
	"flag"
	"fmt"
	"math/rand"
	"os"
	"strings"
	"syscall"
	"time"

	"github.com/bobertlo/gmars"
)

type apiCall struct {
	kind      string
	k, i, off int
}

func apiPool(m int) []wdata {
	I := func(op, mod, am, a, bm, b int) ins { return ins{op, mod, am, norm(a, m), bm, norm(b, m)} }
	return []wdata{
		{[]ins{I(1, 6, 0, 0, 0, 1)}, 0},                         // imp
		{[]ins{I(0, 0, 1, 0, 1, 0)}, 0},                         // dat
		{[]ins{I(15, 2, 0, 0, 5, 1), I(11, 2, 0, -1, 0, 0)}, 1}, // spl 0,<1 / jmp -1 ; starts at 1
		{[]ins{I(14, 0, 0, 0, 7, 1), I(5, 0, 0, 1, 0, 2), I(1, 5, 6, 1, 2, 2)}, 2},
	}
}

func alphabet(count, m, maxW, pool int) []apiCall {
	var a []apiCall
	if count < maxW {
		for k := 0; k < pool; k++ {
			a = append(a, apiCall{kind: "add", k: k})
		}
	}
	for i := -1; i <= count+1; i++ {
		for _, off := range []int{0, m - 1, m, 2*m + 3} {
			a = append(a, apiCall{kind: "spawn", i: i, off: off})
		}
	}
	a = append(a, apiCall{kind: "cycle"}, apiCall{kind: "run"}, apiCall{kind: "reset"})
	return a
}

func (b *battle) queries() string {
	var sb strings.Builder
	m := b.cfg.M
	count := len(b.ws)
	sb.WriteString(`"gw":[`)
	for i := -1; i <= count+1; i++ {
		if i > -1 {
			sb.WriteByte(',')
		}
		r := 0
		func() {
			defer func() {
				if e := recover(); e != nil {
					r = 2
				}
			}()
			if w := b.sim.GetWarrior(i); w != nil {
				r = 1
			}
		}()
		fmt.Fprintf(&sb, "%d", r)
	}
	sb.WriteString(`],"npc":[`)
	for i, w := range b.ws {
		if i > 0 {
			sb.WriteByte(',')
		}
		v, e := 0, 0
		func() {
			defer func() {
				if x := recover(); x != nil {
					e = 2
				}
			}()
			a, err := w.NextPC()
			v = clampAddr(a)
			if err != nil {
				e = 1
			}
		}()
		fmt.Fprintf(&sb, "[%d,%d]", v, e)
	}
	sb.WriteString(`],"len":[`)
	for i, w := range b.ws {
		if i > 0 {
			sb.WriteByte(',')
		}
		fmt.Fprintf(&sb, "%d", w.Length())
	}
	sb.WriteString(`],"gm":[`)
	for k, a := range []int{m, m + 1, 2*m + 3, 7 * m} {
		if k > 0 {
			sb.WriteByte(',')
		}
		var x ins
		func() {
			defer func() {
				if e := recover(); e != nil {
					x = ins{Op: 98}
				}
			}()
			x = fromG(b.sim.GetMem(gmars.Address(a)))
		}()
		fmt.Fprintf(&sb, "[%d,%s]", a, x.json())
	}
	fmt.Fprintf(&sb, `],"cc":%d,"maxc":%d,"cs":%d`, b.sim.CycleCount(), b.sim.MaxCycles(), clampAddr(b.sim.CoreSize()))
	return sb.String()
}

// runHistory executes one history on a fresh simulator; returns lines and whether a call hung
func runHistory(cfg simCfg, pool []wdata, h []apiCall, reports bool) (lines []string, hung bool) {
	b, errs := newBattle(cfg, reports)
	if b == nil {
		return []string{fmt.Sprintf(`{"ev":"new","M":%d,"P":%d,"C":%d,"RL":%d,"WL":%d,"ok":0,"msg":%q}`, cfg.M, cfg.P, cfg.C, cfg.RL, cfg.WL, errs)}, false
	}
	lines = append(lines, fmt.Sprintf(`{"ev":"new","M":%d,"P":%d,"C":%d,"RL":%d,"WL":%d,"ok":1,"msg":"","api":1}`, cfg.M, cfg.P, cfg.C, cfg.RL, cfg.WL))
	for _, c := range h {
		switch c.kind {
		case "add":
			w := pool[c.k]
			wr, err := b.sim.AddWarrior(w.g())
			errv := 0
			if err != nil || wr == nil {
				errv = 1
			} else {
				b.ws = append(b.ws, wr)
			}
			lines = append(lines, fmt.Sprintf(`{"ev":"add","code":%s,"start":%d,"err":%d,%s,%s}`, insListJSON(w.code), w.start, errv, b.safePost(), b.safeQueries()))
		case "spawn":
			l := b.spawn(c.i, c.off)
			lines = append(lines, l[:len(l)-1]+","+b.safeQueries()+"}")
		case "cycle":
			l, _, _ := b.cycle()
			lines = append(lines, l[:len(l)-1]+","+b.safeQueries()+"}")
		case "reset":
			l := b.reset()
			lines = append(lines, l[:len(l)-1]+","+b.safeQueries()+"}")
		case "run":
			type res struct {
				flags []bool
				pan   string
			}
			ch := make(chan res, 1)
			go func() {
				r := res{}
				defer func() {
					if e := recover(); e != nil {
						r.pan = fmt.Sprint(e)
					}
					ch <- r
				}()
				r.flags = b.sim.Run()
			}()
			select {
			case r := <-ch:
				nilv := 0
				if r.flags == nil {
					nilv = 1
				}
				fl := make([]int, len(r.flags))
				for i, f := range r.flags {
					if f {
						fl[i] = 1
					}
				}
				lines = append(lines, fmt.Sprintf(`{"ev":"run","nil":%d,"flags":%s,"panic":%q,"timeout":0,%s,%s}`, nilv, intsJSON(fl), r.pan, b.safePost(), b.safeQueries()))
			case <-time.After(20 * time.Second):
				lines = append(lines, `{"ev":"run","nil":0,"flags":[],"panic":"","timeout":1,"cycle":-1,"living":-1,"count":-1,"alive":[],"q":[],"d":[]}`)
				return lines, true
			}
		}
	}
	return lines, false
}

func (b *battle) safeQueries() (s string) {
	defer func() {
		if e := recover(); e != nil {
			s = fmt.Sprintf(`"qpanic":%q`, fmt.Sprint(e))
		}
	}()
	return b.queries()
}

func cmdAPI(args []string) {
	fs := flag.NewFlagSet("api", flag.ExitOnError)
	out := fs.String("out", "api", "output prefix")
	shards := fs.Int("shards", 8, "shards")
	seed := fs.Int64("seed", 1, "seed")
	depth := fs.Int("depth", 3, "exhaustive depth")
	m := fs.Int("M", 3, "core size of the exhaustive part")
	maxW := fs.Int("maxw", 3, "max warriors")
	poolN := fs.Int("pool", 3, "warrior pool size")
	nrand := fs.Int("random", 300, "number of random histories")
	rlen := fs.Int("rlen", 40, "length of random histories")
	from := fs.Int("from", 0, "first history index (internal, after a hung call)")
	appendMode := fs.Bool("append", false, "append to shards (internal)")
	stats := fs.String("stats", "0,0,0", "internal")
	fs.Parse(args)
	w := newShardWriterMode(*out, *shards, *appendMode)
	st := parseInts(*stats) // histories, events, hung
	idx := 0
	restart := func(next int) {
		w.close()
		a := []string{os.Args[0], "api", "-out", *out, "-shards", fmt.Sprint(*shards), "-seed", fmt.Sprint(*seed), "-depth", fmt.Sprint(*depth),
			"-M", fmt.Sprint(*m), "-maxw", fmt.Sprint(*maxW), "-pool", fmt.Sprint(*poolN), "-random", fmt.Sprint(*nrand), "-rlen", fmt.Sprint(*rlen),
			"-from", fmt.Sprint(next), "-append", "-stats", fmt.Sprintf("%d,%d,%d", st[0], st[1], st[2])}
		syscall.Exec(os.Args[0], a, os.Environ())
		fatal("exec failed")
	}
	emit := func(cfg simCfg, pool []wdata, h []apiCall) {
		if idx < *from {
			idx++
			return
		}
		// shard by history index so that restarts keep the distribution
		w.cur = idx % len(w.files)
		lines, hung := runHistory(cfg, pool, h, false)
		for _, l := range lines {
			w.line(l)
		}
		st[0]++
		st[1] += len(lines)
		idx++
		if hung {
			st[2]++
			if st[2] > 200 {
				w.close()
				fatal("more than 200 hung Run() calls; giving up")
			}
			restart(idx)
		}
	}
	cfg := simCfg{M: *m, P: 2, C: 3, RL: *m, WL: *m}
	pool := apiPool(*m)[:*poolN]
	var dfs func(h []apiCall, count int)
	dfs = func(h []apiCall, count int) {
		if len(h) == *depth {
			emit(cfg, pool, h)
			return
		}
		for _, c := range alphabet(count, *m, *maxW, *poolN) {
			n := count
			if c.kind == "add" {
				n++
			}
			dfs(append(h[:len(h):len(h)], c), n)
		}
	}
	dfs(nil, 0)
	// random long histories on slightly bigger cores
	r := rand.New(rand.NewSource(*seed))
	for k := 0; k < *nrand; k++ {
		mm := []int{3, 4, 5, 8}[r.Intn(4)]
		rl, wl := genLimits(r, mm)
		c := simCfg{M: mm, P: 1 + r.Intn(3), C: 1 + r.Intn(12), RL: rl, WL: wl}
		pl := apiPool(mm)
		var h []apiCall
		count := 0
		for len(h) < *rlen {
			al := alphabet(count, mm, 4, len(pl))
			var c apiCall
			switch x := r.Intn(10); {
			case x < 4:
				c = apiCall{kind: "cycle"}
			case x < 5 && count > 0:
				c = apiCall{kind: "spawn", i: r.Intn(count), off: r.Intn(3 * mm)}
			default:
				c = al[r.Intn(len(al))]
			}
			if c.kind == "add" {
				count++
			}
			h = append(h, c)
		}
		emit(c, pl, h)
	}
	w.close()
	fmt.Printf(`{"histories":%d,"events":%d,"hung":%d}`+"\n", st[0], st[1], st[2])
}

// "api-replay": re-execute one history given as JSON {cfg:{M,P,C,RL,WL}, hist:[{kind,code,start,i,off}..]}
func cmdAPIReplay(args []string) {
	fs := flag.NewFlagSet("api-replay", flag.ExitOnError)
	in := fs.String("in", "", "history json")
	out := fs.String("out", "", "output prefix")
	fs.Parse(args)
	evs := readNDJSON(*in)
	if len(evs) != 1 {
		fatal("api-replay: expected one JSON object")
	}
	c := evs[0]["cfg"].(map[string]interface{})
	cfg := simCfg{jint(c["M"]), jint(c["P"]), jint(c["C"]), jint(c["RL"]), jint(c["WL"])}
	var pool []wdata
	var h []apiCall
	for _, x := range evs[0]["hist"].([]interface{}) {
		m := x.(map[string]interface{})
		switch m["kind"] {
		case "add":
			pool = append(pool, wdata{jinsList(m["code"]), jint(m["start"])})
			h = append(h, apiCall{kind: "add", k: len(pool) - 1})
		case "spawn":
			h = append(h, apiCall{kind: "spawn", i: jint(m["i"]), off: jint(m["off"])})
		default:
			h = append(h, apiCall{kind: m["kind"].(string)})
		}
	}
	w := newShardWriter(*out, 1)
	lines, _ := runHistory(cfg, pool, h, false)
	for _, l := range lines {
		w.line(l)
	}
	w.close()
	fmt.Printf(`{"replayed":%d}`+"\n", len(lines))
	os.Exit(0) // a hung Run() goroutine may still be spinning
}
