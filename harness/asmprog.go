package main

// Seeded generator of abstract programs for C03 / C06 / C07 / C08 and the "asm" command that renders
// each program in K surface variants, assembles every variant with the real CompileWarrior and logs
// {"ev":"prog","p":<program>,"res":[...]} for TLC (AsmTrace.tla).

import (
	"flag"
	"fmt"
	"math/rand"
	"strings"
)

type genCtx struct {
	r       *rand.Rand
	p       *prog
	labels  []string       // label names usable in operands
	lline   map[string]int // label -> code line (by construction; used only to keep ORG/END in range)
	equs    []string
	equToks map[string][]tok
	nIns    int
	signs   int  // max length of unary sign runs
	divzero bool // allow zero divisors (C07)
	pre     bool
}

var preNames = []string{"CORESIZE", "MAXLENGTH", "MAXPROCESSES", "MINDISTANCE"}

func (g *genCtx) preVal(n string) int {
	switch n {
	case "CORESIZE":
		return g.p.M
	case "MAXLENGTH":
		return g.p.L
	case "MAXPROCESSES":
		return g.p.P
	}
	return g.p.D
}

// crude magnitude bound of the fully substituted token string: product of (|v|+1)
func (g *genCtx) bound(ts []tok, depth int) float64 {
	b := 1.0
	for _, t := range ts {
		switch t.K {
		case "n":
			b *= float64(abs(t.V) + 1)
		case "s":
			if e, ok := g.equToks[t.S]; ok && depth < 8 {
				b *= g.bound(e, depth+1)
			} else if contains(preNames, t.S) {
				b *= float64(g.preVal(t.S) + 1)
			} else {
				b *= float64(g.nIns + 2)
			}
		}
	}
	return b
}

func abs(v int) int {
	if v < 0 {
		return -v
	}
	return v
}

func contains(l []string, s string) bool {
	for _, x := range l {
		if x == s {
			return true
		}
	}
	return false
}

func (g *genCtx) atom(equLimit int) []tok {
	r := g.r
	var t []tok
	switch k := r.Intn(10); {
	case k < 4:
		t = []tok{num(r.Intn(21))}
	case k == 4:
		t = []tok{num(r.Intn(g.p.M + 6))}
	case k < 7 && len(g.labels) > 0:
		t = []tok{sym(g.labels[r.Intn(len(g.labels))])}
	case k < 9 && equLimit > 0:
		t = []tok{sym(g.equs[r.Intn(equLimit)])}
	case g.pre:
		t = []tok{sym(preNames[r.Intn(4)])}
	default:
		t = []tok{num(r.Intn(10))}
	}
	if g.signs > 0 && r.Intn(4) == 0 {
		n := 1 + r.Intn(g.signs)
		var s []tok
		for i := 0; i < n; i++ {
			if r.Intn(4) == 0 {
				s = append(s, op("+"))
			} else {
				s = append(s, op("-"))
			}
		}
		t = append(s, t...)
	}
	return t
}

func (g *genCtx) expr(depth, equLimit int) []tok {
	r := g.r
	if depth == 0 || r.Intn(3) == 0 {
		return g.atom(equLimit)
	}
	l := g.expr(depth-1, equLimit)
	o := []string{"+", "-", "*", "/", "%", "+", "-"}[r.Intn(7)]
	var rt []tok
	if o == "/" || o == "%" {
		if g.divzero && r.Intn(6) == 0 {
			rt = [][]tok{{num(0)}, {op("("), num(3), op("-"), num(3), op(")")}}[r.Intn(2)]
		} else {
			rt = []tok{num(1 + r.Intn(9))}
			if g.signs > 0 && r.Intn(4) == 0 {
				rt = append([]tok{op("-")}, rt...)
			}
		}
	} else {
		rt = g.expr(depth-1, equLimit)
	}
	if r.Intn(4) == 0 {
		l = append(append([]tok{op("(")}, l...), op(")"))
	}
	if r.Intn(4) == 0 && len(rt) > 1 {
		rt = append(append([]tok{op("(")}, rt...), op(")"))
	}
	res := append(append(append([]tok{}, l...), op(o)), rt...)
	if r.Intn(6) == 0 {
		res = append(append([]tok{op("(")}, res...), op(")"))
	}
	return res
}

// an expression whose substituted form stays well inside 32 bits
func (g *genCtx) safeExpr(depth, equLimit int) []tok {
	for i := 0; i < 20; i++ {
		e := g.expr(depth, equLimit)
		if g.bound(e, 0) < 5e8 {
			return e
		}
	}
	return []tok{num(g.r.Intn(10))}
}

var ops94 = []string{"DAT", "MOV", "ADD", "SUB", "MUL", "DIV", "MOD", "CMP", "SEQ", "SNE", "SLT", "JMP", "JMZ", "JMN", "DJN", "SPL", "NOP"}
var ops88 = []string{"DAT", "MOV", "ADD", "SUB", "JMP", "JMZ", "JMN", "DJN", "CMP", "SLT", "SPL"}
var mods94 = []string{"F", "A", "B", "AB", "BA", "X", "I"}
var modes94 = []string{"$", "#", "*", "@", "{", "<", "}", ">"}
var modes88 = []string{"$", "#", "@", "<"}

type genOpts struct {
	dialect  int
	maxIns   int
	signs    int
	divzero  bool
	asserts  bool
	fors     bool
	sloppy88 bool // '88 programs with arbitrary (possibly illegal) mode combinations
}

func genCfgAsm(r *rand.Rand, dialect int) prog {
	ms := []int{7, 80, 800, 8000, 8192, 55440}
	m := ms[r.Intn(len(ms))]
	l := 100
	if m < 200 {
		l = m / 2
	}
	if l < 3 {
		l = 3
	}
	d := (m - l) / 3
	if d < 1 {
		d = 1
	}
	return prog{Dialect: dialect, M: m, L: l, P: 64 + r.Intn(3), D: d}
}

func genProgram(r *rand.Rand, o genOpts) prog {
	p := genCfgAsm(r, o.dialect)
	g := &genCtx{r: r, p: &p, lline: map[string]int{}, equToks: map[string][]tok{}, signs: o.signs, divzero: o.divzero, pre: true}
	n := 1 + r.Intn(o.maxIns)
	if n > p.L {
		n = p.L
	}
	g.nIns = n
	// labels
	nl := r.Intn(6)
	lab := make([][]string, n+1)
	for i := 0; i < nl; i++ {
		name := fmt.Sprintf("l%d", i)
		line := r.Intn(n)
		lab[line] = append(lab[line], name)
		g.labels = append(g.labels, name)
		g.lline[name] = line
	}
	// EQUs: e_k may use e_j (j<k), literals, predefined names, rarely labels
	ne := r.Intn(5)
	var equItems []item
	for k := 0; k < ne; k++ {
		name := fmt.Sprintf("e%d", k)
		g.equs = append(g.equs, name)
		saved := g.labels
		if r.Intn(4) != 0 {
			g.labels = nil
		}
		body := g.safeExpr(1+r.Intn(2), k)
		g.labels = saved
		g.equToks[name] = body
		equItems = append(equItems, item{T: "equ", Names: []string{name}, Toks: body})
	}
	var items []item
	for i := 0; i < n; i++ {
		it := item{T: "ins", Labels: lab[i], HasB: r.Intn(5) != 0}
		if o.dialect == 88 {
			it.Op = ops88[r.Intn(len(ops88))]
			pick := func(allowed string) string {
				if r.Intn(4) == 0 {
					return ""
				}
				return string(allowed[r.Intn(len(allowed))])
			}
			if o.sloppy88 {
				it.Am, it.Bm = pick("$#@<"), pick("$#@<")
			} else {
				switch it.Op {
				case "DAT":
					it.Am, it.Bm = pick("#<"), pick("#<")
				case "MOV", "ADD", "SUB", "CMP", "SLT":
					it.Am, it.Bm = pick("$#@<"), pick("$@<")
				default:
					it.Am, it.Bm = pick("$@<"), pick("$#@<")
				}
			}
		} else {
			it.Op = ops94[r.Intn(len(ops94))]
			if r.Intn(2) == 0 {
				it.Mod = mods94[r.Intn(7)]
			}
			if r.Intn(10) < 7 {
				it.Am = modes94[r.Intn(8)]
			}
			if r.Intn(10) < 7 {
				it.Bm = modes94[r.Intn(8)]
			}
		}
		it.A = g.safeExpr(r.Intn(3), len(g.equs))
		if it.HasB {
			it.B = g.safeExpr(r.Intn(3), len(g.equs))
		} else {
			it.Bm = ""
		}
		items = append(items, it)
	}
	// entry point
	startTok := func() []tok {
		if len(g.labels) > 0 && r.Intn(2) == 0 {
			l := g.labels[r.Intn(len(g.labels))]
			if g.lline[l]+1 < n && r.Intn(3) == 0 {
				return []tok{sym(l), op("+"), num(1)}
			}
			return []tok{sym(l)}
		}
		return []tok{num(r.Intn(n))}
	}
	switch r.Intn(4) {
	case 0:
		items = append([]item{{T: "org", Toks: startTok()}}, items...)
	case 1:
		items = append(items, item{T: "end", Toks: startTok()})
	case 2:
		items = append(items, item{T: "end"})
	}
	if o.divzero {
		// C07: the evaluator at the ORG/END and FOR-count use sites
		lit := func() []tok {
			sl, se, sp := g.labels, g.equs, g.pre
			g.labels, g.equs, g.pre = nil, nil, false
			e := g.safeExpr(1+r.Intn(2), 0)
			g.labels, g.equs, g.pre = sl, se, sp
			return e
		}
		for i := range items {
			if (items[i].T == "org" || items[i].T == "end") && len(items[i].Toks) > 0 && r.Intn(2) == 0 {
				items[i].Toks = append(append(append([]tok{op("(")}, g.safeExpr(1+r.Intn(2), len(g.equs))...), op(")"), op("%")), num(n))
			}
		}
		if r.Intn(2) == 0 {
			cnt := append(append(append([]tok{op("(")}, lit()...), op(")"), op("%")), num(4))
			blk := item{T: "for", Count: cnt, Body: []item{{T: "ins", Op: "DAT", A: []tok{num(7)}}}}
			pos := len(items)
			if items[pos-1].T == "end" {
				pos--
			}
			items = append(items[:pos:pos], append([]item{blk}, items[pos:]...)...)
		}
	}
	if o.asserts {
		na := r.Intn(4)
		for i := 0; i < na; i++ {
			saved := g.labels
			g.labels = nil
			a := item{T: "assert", Toks: g.safeExpr(1+r.Intn(2), len(g.equs))}
			if r.Intn(4) == 0 { // an assertion that is exactly zero: (E)-(E)
				e := g.safeExpr(1, len(g.equs))
				z := append([]tok{op("(")}, e...)
				z = append(z, op(")"), op("-"), op("("))
				z = append(z, e...)
				a.Toks = append(z, op(")"))
			}
			g.labels = saved
			pos := r.Intn(len(items))
			if items[pos].T == "end" && pos > 0 {
				pos--
			}
			items = append(items[:pos:pos], append([]item{a}, items[pos:]...)...)
		}
	}
	// metadata
	var meta []item
	if r.Intn(2) == 0 {
		meta = append(meta, item{T: "meta", K: "name", V: []string{"Imp Ex", "x", "dwarf 2"}[r.Intn(3)]})
	}
	if r.Intn(2) == 0 {
		meta = append(meta, item{T: "meta", K: "author", V: []string{"A. K. Dewdney", "me"}[r.Intn(2)]})
	}
	for i := r.Intn(3); i > 0; i-- {
		meta = append(meta, item{T: "meta", K: "strategy", V: []string{"bomb everything", "run away", "x = 1"}[r.Intn(3)]})
	}
	all := append(equItems, items...)
	// metadata comments may stand anywhere before END: at the top or between the instructions
	for _, mi := range meta {
		limit := len(all)
		for i, it := range all {
			if it.T == "end" {
				limit = i
			}
		}
		pos := 0
		if r.Intn(2) == 0 {
			pos = r.Intn(limit + 1)
		}
		all = append(all[:pos:pos], append([]item{mi}, all[pos:]...)...)
	}
	p.Items = all
	if hasFor(p.Items) {
		return p
	}
	return moveEqus(r, p)
}

// exhaustive default tables: every opcode x A-mode (absent + all) x B-mode (absent, all, no operand) x modifier absent
func tablePrograms(dialect int) []prog {
	var out []prog
	ops, modes := ops94, modes94
	if dialect == 88 {
		ops, modes = ops88, modes88
	}
	am := append([]string{""}, modes...)
	for _, o := range ops {
		for _, a := range am {
			for _, b := range append(append([]string{}, am...), "none") {
				it := item{T: "ins", Op: o, Am: a, A: []tok{num(3)}, HasB: b != "none", B: []tok{num(5)}}
				if b != "none" {
					it.Bm = b
				} else {
					it.B = nil
				}
				out = append(out, prog{Dialect: dialect, M: 8000, L: 100, P: 64, D: 100, Items: []item{it}})
			}
		}
	}
	return out
}

func progEvent(r *rand.Rand, p prog, variants int, meta bool, zeroPad bool) string {
	var res, texts []string
	cfg := p.cfg()
	for v := 0; v < variants; v++ {
		o := &renderOpts{r: r, plain: v == 0, zeroPad: zeroPad, rich: true}
		q := p
		if v > 0 {
			o.rename = respell(r, p)
			if !hasFor(p.Items) {
				q = moveEqus(r, p)
			}
		}
		text := render(q, o)
		texts = append(texts, text)
		res = append(res, compileResult(text, cfg))
	}
	m := ""
	if meta {
		m = `,"meta":1`
	}
	return fmt.Sprintf(`{"ev":"prog","p":%s,"res":[%s],"texts":%s%s}`, p.json(), strings.Join(res, ","), strsJSON(texts), m)
}

func hasFor(items []item) bool {
	for _, it := range items {
		if it.T == "for" {
			return true
		}
	}
	return false
}

func cmdAsm(args []string) {
	fs := flag.NewFlagSet("asm", flag.ExitOnError)
	out := fs.String("out", "asm", "output prefix")
	shards := fs.Int("shards", 8, "shards")
	seed := fs.Int64("seed", 1, "seed")
	n := fs.Int("n", 1000, "random programs")
	variants := fs.Int("variants", 4, "renderings per program")
	mode := fs.String("mode", "c03", "c03 | c07")
	fs.Parse(args)
	r := rand.New(rand.NewSource(*seed))
	w := newShardWriter(*out, *shards)
	progs, tables := 0, 0
	if *mode == "c03" {
		for _, d := range []int{94, 88} {
			for _, p := range tablePrograms(d) {
				w.line(progEvent(r, p, 2, false, false))
				w.nextUnit()
				tables++
			}
		}
	}
	for k := 0; k < *n; k++ {
		o := genOpts{dialect: 94, maxIns: 12}
		if r.Intn(3) == 0 {
			o.dialect = 88
		}
		if *mode == "c07" {
			o.signs, o.divzero, o.asserts, o.maxIns = 4, true, true, 4
		} else if r.Intn(2) == 0 {
			// C03: signed uses of labels and EQU names ("2*-back", "10+-step" with a negative body)
			o.signs = 1 + r.Intn(2)
		}
		p := genProgram(r, o)
		w.line(progEvent(r, p, *variants, true, r.Intn(3) == 0))
		w.nextUnit()
		progs++
	}
	w.close()
	fmt.Printf(`{"programs":%d,"table_cases":%d,"variants":%d}`+"\n", progs, tables, *variants)
}

// "prog-replay": re-assemble the renderings of recorded programs.  The abstract program in the event is the
// only input; it is parsed back from JSON and rendered again (plain + variants).
func cmdProgReplay(args []string) {
	fs := flag.NewFlagSet("prog-replay", flag.ExitOnError)
	in := fs.String("in", "", "ndjson with prog events")
	out := fs.String("out", "", "output prefix")
	fs.Parse(args)
	evs := readNDJSON(*in)
	w := newShardWriter(*out, 1)
	r := rand.New(rand.NewSource(7))
	for _, e := range evs {
		p := jprog(e["p"])
		_, meta := e["meta"]
		if ts := jstrs(e["texts"]); len(ts) > 0 {
			// the recorded renderings are the inputs
			var res []string
			for _, t := range ts {
				res = append(res, compileResult(t, p.cfg()))
			}
			m := ""
			if meta {
				m = `,"meta":1`
			}
			w.line(fmt.Sprintf(`{"ev":"prog","p":%s,"res":[%s],"texts":%s%s}`, p.json(), strings.Join(res, ","), strsJSON(ts), m))
			continue
		}
		nv := 4
		if l, ok := e["res"].([]interface{}); ok && len(l) > 0 {
			nv = len(l)
		}
		w.line(progEvent(r, p, nv, meta, false))
	}
	w.close()
	fmt.Printf(`{"replayed":%d}`+"\n", len(evs))
}

func jtoks(v interface{}) []tok {
	l, _ := v.([]interface{})
	var out []tok
	for _, x := range l {
		t := x.([]interface{})
		k := t[0].(string)
		switch k {
		case "n":
			out = append(out, num(jint(t[1])))
		case "s":
			out = append(out, sym(t[1].(string)))
		default:
			out = append(out, op(k))
		}
	}
	return out
}

func jstrs(v interface{}) []string {
	l, _ := v.([]interface{})
	var out []string
	for _, x := range l {
		out = append(out, x.(string))
	}
	return out
}

func jstr(v interface{}) string {
	s, _ := v.(string)
	return s
}

func jitems(v interface{}) []item {
	l, _ := v.([]interface{})
	var out []item
	for _, x := range l {
		m := x.(map[string]interface{})
		it := item{T: jstr(m["t"])}
		switch it.T {
		case "ins":
			it.Labels, it.Op, it.Mod, it.Am, it.Bm = jstrs(m["labels"]), jstr(m["op"]), jstr(m["mod"]), jstr(m["am"]), jstr(m["bm"])
			it.A, it.B = jtoks(m["a"]), jtoks(m["b"])
			it.HasB, _ = m["hasb"].(bool)
		case "equ":
			it.Names, it.Toks = jstrs(m["names"]), jtoks(m["toks"])
		case "org", "assert":
			it.Toks = jtoks(m["toks"])
		case "end":
			it.Labels, it.Toks = jstrs(m["labels"]), jtoks(m["toks"])
		case "meta":
			it.K, it.V = jstr(m["k"]), jstr(m["v"])
		case "for":
			it.Labels, it.Ctr, it.Count, it.N, it.Body = jstrs(m["labels"]), jstr(m["ctr"]), jtoks(m["count"]), jint(m["n"]), jitems(m["body"])
		}
		out = append(out, it)
	}
	return out
}

func jprog(v interface{}) prog {
	m := v.(map[string]interface{})
	return prog{Dialect: jint(m["dialect"]), M: jint(m["M"]), L: jint(m["L"]), P: jint(m["P"]), D: jint(m["D"]), Items: jitems(m["items"])}
}
