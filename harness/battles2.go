package main

import (
	"flag"
	"fmt"
	"math/rand"
	"strings"

	"github.com/bobertlo/gmars"
)

// "rot": twin battles, the second with every load offset shifted by k (+ j*M)  (C12)
func cmdRot(args []string) {
	fs := flag.NewFlagSet("rot", flag.ExitOnError)
	out := fs.String("out", "rot", "output prefix")
	shards := fs.Int("shards", 8, "shards")
	seed := fs.Int64("seed", 1, "seed")
	n := fs.Int("n", 500, "number of battles")
	msFlag := fs.String("M", "3,4,5,7,8,13,16,31,64", "core sizes")
	fs.Parse(args)
	r := rand.New(rand.NewSource(*seed))
	w := newShardWriter(*out, *shards)
	ms := parseInts(*msFlag)
	st := &battleStats{}
	pairs, wrapped, bigoff, reused := 0, 0, 0, 0
	for b := 0; b < *n; b++ {
		cfg := genCfg(r, ms)
		nw := 1 + r.Intn(3)
		var ws []wdata
		var offs []int
		for i := 0; i < nw; i++ {
			ws = append(ws, genWarrior(r, cfg.M, r.Intn(2) == 0))
			offs = append(offs, r.Intn(cfg.M))
		}
		if nw > 1 && r.Intn(12) == 0 {
			ws[nw-1] = wdata{nil, 0} // a warrior without instructions (a source of comments only): it starts on whatever lies at its offset
		}
		if b%97 == 5 {
			// a core beyond 16-bit addresses, warriors placed at its far end
			cfg = simCfg{M: 70000, P: 2, C: 3, RL: 70000, WL: 70000}
			for i := range offs {
				offs[i] = 1000 + 40*i
			}
		}
		a, la := runRecorded(r, cfg, ws, offs, st)
		for _, l := range la {
			w.line(l)
		}
		aState, aFlags := "", ""
		if a != nil {
			aState, aFlags = a.fullState(), aliveJSON(a)
		}
		// shifts: 1, M-len, M-1, random
		ks := []int{1, cfg.M - len(ws[0].code), cfg.M - 1, r.Intn(cfg.M)}
		if cfg.M == 70000 {
			ks = []int{65000, 1}
		}
		for idx, k := range ks[:1+r.Intn(len(ks))] {
			k = norm(k, cfg.M)
			j := r.Intn(4)
			o2 := make([]int, len(offs))
			for i := range offs {
				o2[i] = (offs[i]+k)%cfg.M + j*cfg.M
				if j == 3 {
					o2[i] = hugeMark + (offs[i]+k)%cfg.M // the largest 64-bit offset in that residue class
				}
				if (offs[i]+k)%cfg.M+len(ws[i].code) > cfg.M {
					wrapped++
				}
			}
			if j > 0 {
				bigoff++
			}
			var bb *battle
			var lb []string
			ru := 0
			if a != nil && idx == 0 && r.Intn(3) == 0 {
				ru = 1
				// the shifted battle on the SAME simulator, reset and respawned (placement independence of a reused
				// simulator); its lines continue the trace of the first battle
				bb = a2reuse(a, ws, o2, st, &lb)
				reused++
			} else {
				bb, lb = runRecorded(r, cfg, ws, o2, st)
			}
			for _, l := range lb {
				w.line(l)
			}
			if aState != "" && bb != nil {
				w.line(rotEventS(cfg, ws, offs, k, j, aState, bb.fullState(), aFlags, aliveJSON(bb), ru))
				pairs++
			}
		}
		w.nextUnit()
	}
	w.close()
	fmt.Printf(`{"battles":%d,"events":%d,"cycles":%d,"pairs":%d,"wrapped_loads":%d,"offsets_beyond_core":%d,"reused_simulator":%d,"panics":%d}`+"\n", st.battles, st.events, st.cycles, pairs, wrapped, bigoff, reused, st.panics)
}

func rotEvent(cfg simCfg, ws []wdata, offs []int, k, j int, a, bb *battle) string {
	return rotEventS(cfg, ws, offs, k, j, a.fullState(), bb.fullState(), aliveJSON(a), aliveJSON(bb), 0)
}

func rotEventS(cfg simCfg, ws []wdata, offs []int, k, j int, aState, bState, aFlags, bFlags string, reuse int) string {
	var wj []string
	for _, w := range ws {
		wj = append(wj, fmt.Sprintf(`{"code":%s,"start":%d}`, insListJSON(w.code), w.start))
	}
	return fmt.Sprintf(`{"ev":"rot","k":%d,"j":%d,"a":%s,"b":%s,"aflags":%s,"bflags":%s,"cfg":{"M":%d,"P":%d,"C":%d,"RL":%d,"WL":%d},"ws":[%s],"offs":%s,"reuse":%d}`,
		k, j, aState, bState, aFlags, bFlags, cfg.M, cfg.P, cfg.C, cfg.RL, cfg.WL, strings.Join(wj, ","), intsJSON(offs), reuse)
}

// "rot-replay": re-run both battles of recorded rot events from their inputs
func cmdRotReplay(args []string) {
	fs := flag.NewFlagSet("rot-replay", flag.ExitOnError)
	in := fs.String("in", "", "ndjson with rot events")
	out := fs.String("out", "", "prefix")
	fs.Parse(args)
	w := newShardWriter(*out, 1)
	r := rand.New(rand.NewSource(1))
	st := &battleStats{}
	for _, e := range readNDJSON(*in) {
		if e["ev"] != "rot" {
			continue
		}
		c := e["cfg"].(map[string]interface{})
		cfg := simCfg{jint(c["M"]), jint(c["P"]), jint(c["C"]), jint(c["RL"]), jint(c["WL"])}
		var ws []wdata
		for _, x := range e["ws"].([]interface{}) {
			m := x.(map[string]interface{})
			ws = append(ws, wdata{jinsList(m["code"]), jint(m["start"])})
		}
		offs := jints(e["offs"])
		k, j := jint(e["k"]), jint(e["j"])
		a, la := runRecorded(r, cfg, ws, offs, st)
		o2 := make([]int, len(offs))
		for i := range offs {
			o2[i] = (offs[i]+k)%cfg.M + j*cfg.M
			if j == 3 {
				o2[i] = hugeMark + (offs[i]+k)%cfg.M
			}
		}
		for _, l := range la {
			w.line(l)
		}
		if a == nil {
			continue
		}
		aState, aFlags := a.fullState(), aliveJSON(a)
		var bb *battle
		var lb []string
		if jint(e["reuse"]) == 1 {
			bb = a2reuse(a, ws, o2, st, &lb)
		} else {
			bb, lb = runRecorded(r, cfg, ws, o2, st)
		}
		for _, l := range lb {
			w.line(l)
		}
		if bb != nil {
			w.line(rotEventS(cfg, ws, offs, k, j, aState, bb.fullState(), aFlags, aliveJSON(bb), jint(e["reuse"])))
		}
	}
	w.close()
	fmt.Println(`{"replayed":1}`)
}

// a2reuse continues the trace of battle a: Reset, spawn at the shifted offsets, step to the end.
// The final state of a must have been captured by the caller before (fullState is taken from the returned battle).
func a2reuse(a *battle, ws []wdata, offs []int, st *battleStats, lines *[]string) *battle {
	*lines = append(*lines, a.reset())
	for i := range ws {
		if offs[i] >= hugeMark {
			*lines = append(*lines, a.spawnHuge(i, offs[i]-hugeMark))
		} else {
			*lines = append(*lines, a.spawn(i, offs[i]))
		}
	}
	for a.inProgress() {
		line, _, pan := a.cycle()
		*lines = append(*lines, line)
		st.cycles++
		if pan != "" {
			st.panics++
			return nil
		}
	}
	return a
}

func aliveJSON(b *battle) string {
	fl := make([]int, len(b.ws))
	for i, w := range b.ws {
		if w.Alive() {
			fl[i] = 1
		}
	}
	return intsJSON(fl)
}

// offsets at or above hugeMark stand for "the largest 64-bit offset congruent to (value - hugeMark)"
const hugeMark = 1 << 40

// runRecorded records a stepped battle and returns the battle for its final state
func runRecorded(r *rand.Rand, cfg simCfg, ws []wdata, offs []int, st *battleStats) (*battle, []string) {
	var lines []string
	b, errs := newBattle(cfg, false)
	okv := 1
	if b == nil {
		okv = 0
	}
	lines = append(lines, fmt.Sprintf(`{"ev":"new","M":%d,"P":%d,"C":%d,"RL":%d,"WL":%d,"ok":%d,"msg":%q}`, cfg.M, cfg.P, cfg.C, cfg.RL, cfg.WL, okv, errs))
	if b == nil {
		return nil, lines
	}
	for _, w := range ws {
		lines = append(lines, b.add(w))
	}
	for i := range ws {
		if offs[i] >= hugeMark {
			lines = append(lines, b.spawnHuge(i, offs[i]-hugeMark))
		} else {
			lines = append(lines, b.spawn(i, offs[i]))
		}
	}
	for b.inProgress() {
		line, _, pan := b.cycle()
		lines = append(lines, line)
		st.cycles++
		if pan != "" {
			st.panics++
			return nil, lines
		}
	}
	st.battles++
	st.events += len(lines)
	return b, lines
}

// "configs": NewSimulator over boundary products of configuration fields, and short hostile
// battles under every accepted configuration (C04)
func cmdConfigs(args []string) {
	fs := flag.NewFlagSet("configs", flag.ExitOnError)
	out := fs.String("out", "cfg", "output prefix")
	shards := fs.Int("shards", 8, "shards")
	seed := fs.Int64("seed", 1, "seed")
	n := fs.Int("n", 2000, "number of configurations")
	fs.Parse(args)
	r := rand.New(rand.NewSource(*seed))
	w := newShardWriter(*out, *shards)
	accepted, refused, panics, battles := 0, 0, 0, 0
	st := &battleStats{}
	pick := func(m int) int {
		c := []int{0, 1, 2, 3, m - 1, m, m + 1, 1 << 20}
		switch r.Intn(6) {
		case 0:
			return r.Intn(1<<20 + 1)
		case 1, 2: // plausible values, so that many configurations are accepted and battles run under them
			return 1 + r.Intn(m+2)
		}
		v := c[r.Intn(len(c))]
		if v < 0 {
			v = 0
		}
		return v
	}
	for k := 0; k < *n; k++ {
		m := []int{0, 1, 2, 3, 4, 5, 8, 17, 64}[r.Intn(9)]
		if r.Intn(10) == 0 {
			m = r.Intn(1<<12) + 1
		}
		if r.Intn(60) == 0 {
			m = 1 << 20
		}
		c := gmars.SimulatorConfig{Mode: gmars.SimulatorMode(r.Intn(3)), CoreSize: gmars.Address(m), Processes: gmars.Address(pick(m)),
			Cycles: gmars.Address(pick(m)), ReadLimit: gmars.Address(pick(m)), WriteLimit: gmars.Address(pick(m)),
			Length: gmars.Address(pick(m)), Distance: gmars.Address(pick(m))}
		if r.Intn(2) == 0 && m >= 3 {
			c.Length = gmars.Address(r.Intn(m + 1))
			c.Distance = gmars.Address(r.Intn(m - int(c.Length) + 1))
		}
		okv, msg := 1, ""
		var sim gmars.ReportingSimulator
		func() {
			defer func() {
				if e := recover(); e != nil {
					okv, msg = 0, "panic: "+fmt.Sprint(e)
					panics++
				}
			}()
			s, err := gmars.NewReportingSimulator(c)
			if err != nil {
				okv, msg = 0, "error: "+err.Error()
				return
			}
			sim = s
		}()
		w.line(fmt.Sprintf(`{"ev":"new","M":%d,"P":%d,"C":%d,"RL":%d,"WL":%d,"L":%d,"D":%d,"mode":%d,"ok":%d,"msg":%q}`,
			m, int(c.Processes), int(c.Cycles), int(c.ReadLimit), int(c.WriteLimit), int(c.Length), int(c.Distance), int(c.Mode), okv, msg))
		if okv == 0 {
			refused++
			w.nextUnit()
			continue
		}
		accepted++
		// a short hostile battle under the accepted (possibly odd) configuration
		if m <= 4096 {
			b := &battle{cfg: simCfg{M: m, P: int(c.Processes), C: int(c.Cycles), RL: int(c.ReadLimit), WL: int(c.WriteLimit)}, sim: sim, full: true}
			b.prev = make([]ins, m)
			nw := 1 + r.Intn(3)
			for i := 0; i < nw; i++ {
				wd := genWarrior(r, m, true)
				w.line(b.add(wd))
			}
			for i := 0; i < nw; i++ {
				w.line(b.spawn(i, r.Intn(3*m)))
			}
			for c := 0; c < 40 && b.inProgress(); c++ {
				line, _, pan := b.cycle()
				w.line(line)
				st.cycles++
				if pan != "" {
					panics++
					break
				}
			}
			if !b.inProgress() { // stepping once more after the end must change nothing (and never exceed the cycle limit)
				line, _, _ := b.cycle()
				w.line(line)
			}
			battles++
		}
		w.nextUnit()
	}
	w.close()
	fmt.Printf(`{"configs":%d,"accepted":%d,"refused":%d,"panics":%d,"battles":%d,"cycles":%d}`+"\n", *n, accepted, refused, panics, battles, st.cycles)
}

// "battles-replay": re-execute one recorded trace (only its inputs are used: the configuration,
// the warriors, the spawn calls and the number of cycle calls)
func cmdBattlesReplay(args []string) {
	fs := flag.NewFlagSet("battles-replay", flag.ExitOnError)
	in := fs.String("in", "", "ndjson with one trace")
	out := fs.String("out", "", "output prefix")
	reports := fs.Bool("reports", false, "attach listener and recorder")
	fs.Parse(args)
	evs := readNDJSON(*in)
	w := newShardWriter(*out, 1)
	var b *battle
	var ws []wdata
	var offs []int
	var cfg simCfg
	for _, e := range evs {
		switch e["ev"] {
		case "new":
			cfg = simCfg{jint(e["M"]), jint(e["P"]), jint(e["C"]), jint(e["RL"]), jint(e["WL"])}
			gc := cfg.g()
			if _, ok := e["L"]; ok {
				gc.Length, gc.Distance = gmars.Address(jint(e["L"])), gmars.Address(jint(e["D"]))
			}
			if _, ok := e["mode"]; ok {
				gc.Mode = gmars.SimulatorMode(jint(e["mode"]))
			}
			var errs string
			b, errs = newBattleCfg(cfg, gc, *reports)
			okv := 1
			if b == nil {
				okv = 0
			}
			l := fmt.Sprintf(`{"ev":"new","M":%d,"P":%d,"C":%d,"RL":%d,"WL":%d,"ok":%d,"msg":%q`, cfg.M, cfg.P, cfg.C, cfg.RL, cfg.WL, okv, errs)
			if _, ok := e["L"]; ok {
				l += fmt.Sprintf(`,"L":%d,"D":%d`, jint(e["L"]), jint(e["D"]))
			}
			if _, ok := e["mode"]; ok {
				l += fmt.Sprintf(`,"mode":%d`, jint(e["mode"]))
			}
			w.line(l + "}")
			ws, offs = nil, nil
		case "add":
			if b != nil {
				wd := wdata{jinsList(e["code"]), jint(e["start"])}
				ws = append(ws, wd)
				w.line(b.add(wd))
			}
		case "spawn":
			if b != nil {
				offs = append(offs, jint(e["off"]))
				w.line(b.spawn(jint(e["i"]), jint(e["off"])))
			}
		case "cycle":
			if b != nil {
				l, _, _ := b.cycle()
				w.line(l)
			}
		case "reset":
			if b != nil {
				w.line(b.reset())
			}
		case "run":
			if b != nil {
				w.line(b.run())
			}
		case "runtwin":
			if b != nil {
				st := &battleStats{}
				// replay the twin only
				t, _ := newBattle(cfg, false)
				for _, wd := range ws {
					t.add(wd)
				}
				for i := range ws {
					t.spawn(i, offs[i])
				}
				pan := ""
				var flags []bool
				func() {
					defer func() {
						if e := recover(); e != nil {
							pan = fmt.Sprint(e)
						}
					}()
					flags = t.sim.Run()
				}()
				same := 1
				tc, bc := t.core(), b.core()
				for a := range tc {
					if tc[a] != bc[a] {
						same = 0
					}
				}
				fl := make([]int, len(flags))
				for i, f := range flags {
					if f {
						fl[i] = 1
					}
				}
				w.line(fmt.Sprintf(`{"ev":"runtwin","flags":%s,"panic":%q,%s,"same":%d}`, intsJSON(fl), pan, t.obs(), same))
				_ = st
			}
		}
	}
	w.close()
	fmt.Printf(`{"replayed":%d}`+"\n", len(evs))
}

func newBattleCfg(c simCfg, gc gmars.SimulatorConfig, withReports bool) (b *battle, errs string) {
	defer func() {
		if e := recover(); e != nil {
			b, errs = nil, "panic: "+fmt.Sprint(e)
		}
	}()
	sim, err := gmars.NewReportingSimulator(gc)
	if err != nil {
		return nil, "error: " + err.Error()
	}
	b = &battle{cfg: c, sim: sim, full: true}
	b.prev = make([]ins, c.M)
	b.lis = &listener{sim: sim, m: c.M, snap: withReports}
	sim.AddReporter(b.lis)
	if withReports {
		b.rec = gmars.NewStateRecorder(sim)
		sim.AddReporter(b.rec)
	}
	return b, ""
}
