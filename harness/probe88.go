package main

// "probe88": one fixed input per reader, for the known finding K1 (known_findings.json): under the ICWS'88 rule set gmars
// accepts SLT with an immediate B operand, which the '88 standard does not allow (load.go, getOpModeAndValidate88: the test
// is commented out - "allowed on hills" - and load_test.go lists `SLT $ 0, # 0` among the valid '88 inputs, so the repair
// would need an edit of the suite).  Prints {"asm":0|1,"load":0|1}: 1 = accepted.

import (
	"fmt"
	"strings"

	"github.com/bobertlo/gmars"
)

func cmdProbe88(args []string) {
	asm, load := 0, 0
	if w, err := gmars.CompileWarrior(strings.NewReader("slt 1, #2\n"), gmars.ConfigKOTH88); err == nil && len(w.Code) == 1 {
		asm = 1
	}
	if w, err := gmars.ParseLoadFile(strings.NewReader("SLT $ 1, # 2\n"), gmars.ConfigKOTH88); err == nil && len(w.Code) == 1 {
		load = 1
	}
	fmt.Printf(`{"asm":%d,"load":%d}`+"\n", asm, load)
}
