package main

// "scan": replay TLC-generated symbol-scanner cases (Scanner.tla) through the real ScanInput (verif accessor).

import (
	"flag"
	"fmt"
	"sort"
	"strings"

	"github.com/bobertlo/gmars"
)

func scanTok(t string, v interface{}) gmars.VerifToken {
	switch t {
	case "lbl":
		return gmars.VerifToken{Typ: gmars.VerifTokText, Val: v.(string)}
	case "equ", "for", "end", "org":
		return gmars.VerifToken{Typ: gmars.VerifTokText, Val: t}
	case "op":
		return gmars.VerifToken{Typ: gmars.VerifTokText, Val: "mov"}
	case "nl":
		return gmars.VerifToken{Typ: gmars.VerifTokNewline}
	case "cmt":
		return gmars.VerifToken{Typ: gmars.VerifTokComment, Val: ";c"}
	case "num":
		return gmars.VerifToken{Typ: gmars.VerifTokNumber, Val: fmt.Sprint(jint(v))}
	case "sym":
		return gmars.VerifToken{Typ: gmars.VerifTokSymbol, Val: "+"}
	case "colon":
		return gmars.VerifToken{Typ: gmars.VerifTokColon, Val: ":"}
	case "err":
		return gmars.VerifToken{Typ: gmars.VerifTokError, Val: "lexer error"}
	case "eof":
		return gmars.VerifToken{Typ: gmars.VerifTokEOF}
	}
	fatal("unknown scanner token class %q", t)
	return gmars.VerifToken{}
}

func scanClass(t gmars.VerifToken) string {
	switch t.Typ {
	case gmars.VerifTokText:
		switch t.Val {
		case "equ", "for", "end", "org":
			return t.Val
		case "mov":
			return "op"
		}
		return "lbl:" + t.Val
	case gmars.VerifTokNewline:
		return "nl"
	case gmars.VerifTokComment:
		return "cmt"
	case gmars.VerifTokNumber:
		return "num:" + t.Val
	case gmars.VerifTokSymbol:
		return "sym"
	case gmars.VerifTokColon:
		return "colon"
	case gmars.VerifTokError:
		return "err"
	case gmars.VerifTokEOF:
		return "eof"
	}
	return "?"
}

func cmdScan(args []string) {
	fs := flag.NewFlagSet("scan", flag.ExitOnError)
	in := fs.String("in", "", "ndjson with TLC cases")
	out := fs.String("out", "", "output prefix (mismatches)")
	fs.Parse(args)
	w := newShardWriter(*out, 1)
	n, bad, div := 0, 0, 0
	for _, c := range readNDJSON(*in) {
		var toks []gmars.VerifToken
		for _, x := range c["in"].([]interface{}) {
			m := x.(map[string]interface{})
			toks = append(toks, scanTok(m["t"].(string), m["v"]))
		}
		o := c["out"].(map[string]interface{})
		var want []string
		for _, s := range o["syms"].([]interface{}) {
			p := s.([]interface{})
			var vs []string
			for _, x := range p[1].([]interface{}) {
				m := x.(map[string]interface{})
				cl := m["t"].(string)
				if cl == "lbl" {
					cl += ":" + m["v"].(string)
				} else if cl == "num" {
					cl += ":" + fmt.Sprint(jint(m["v"]))
				}
				vs = append(vs, cl)
			}
			want = append(want, p[0].(string)+"="+strings.Join(vs, " "))
		}
		sort.Strings(want)
		wantFor, _ := o["forSeen"].(bool)
		wantErr, _ := o["err"].(bool)
		var got []string
		gotFor, gotErr, pan := false, false, ""
		func() {
			defer func() {
				if e := recover(); e != nil {
					pan = fmt.Sprint(e)
				}
			}()
			syms, fseen, err := gmars.VerifScan(toks)
			gotFor, gotErr = fseen, err != nil
			for k, v := range syms {
				var vs []string
				for _, t := range v {
					vs = append(vs, scanClass(t))
				}
				got = append(got, k+"="+strings.Join(vs, " "))
			}
			sort.Strings(got)
		}()
		n++
		// on error the real scanner returns no symbols and no flag; only the error itself is compared then
		ok := pan == "" && gotErr == wantErr && (wantErr || (gotFor == wantFor && strings.Join(got, "|") == strings.Join(want, "|")))
		if !ok {
			// only a panic is a violation of the property (C05); another symbol table is a divergence between model and code
			kind := "divergence"
			if pan != "" {
				kind = "property"
				bad++
			} else {
				div++
			}
			if pan != "" || div <= 25 {
				w.line(fmt.Sprintf(`{"kind":%q,"in":%s,"want":%s,"wantfor":%v,"wanterr":%v,"got":%s,"gotfor":%v,"goterr":%v,"panic":%s,"case":%s}`,
					kind, mustJSON(c["in"]), strsJSON(want), wantFor, wantErr, strsJSON(got), gotFor, gotErr, jq(pan), mustJSON(c)))
			}
			if bad >= 40 {
				break
			}
		}
	}
	w.close()
	fmt.Printf(`{"cases":%d,"mismatches":%d,"divergences":%d}`+"\n", n, bad, div)
}
