module verif/harness

go 1.22.0

require github.com/bobertlo/gmars v0.0.0

replace github.com/bobertlo/gmars => /repo
