package main

// FOR/ROF programs (C08) and the expression-site programs of C07.

import (
	"flag"
	"fmt"
	"math/rand"
	"strings"
)

type forGen struct {
	r      *rand.Rand
	total  int // expansions so far (bound 40)
	nctr   int
	nlab   int
	equs   map[string]int // EQU name -> literal value (defined before use)
	labels []string
}

// count expression of a simple, by-construction form; returns tokens
func (g *forGen) countExpr(ctrs []string, max int) []tok {
	r := g.r
	v := r.Intn(max + 1)
	switch k := r.Intn(8); {
	case k < 3:
		return []tok{num(v)}
	case k == 3 && len(g.equs) > 0:
		// the most recently defined EQU that fits the budget
		for i := len(g.equs) - 1; i >= 0; i-- {
			n := fmt.Sprintf("k%d", i)
			if g.equs[n] <= max {
				return []tok{sym(n)}
			}
		}
		return []tok{num(v)}
	case k == 4 && len(ctrs) > 0:
		return []tok{sym(ctrs[r.Intn(len(ctrs))])}
	case k == 5 && r.Intn(2) == 0:
		// a predefined name in a count: MAXLENGTH is 400, MINDISTANCE 100, MAXPROCESSES 64 in these programs
		switch r.Intn(3) {
		case 0:
			return []tok{sym("MAXLENGTH"), op("-"), num(400 - v)}
		case 1:
			return []tok{num(v), op("+"), sym("MINDISTANCE"), op("-"), num(100)}
		default:
			return []tok{sym("MAXPROCESSES"), op("-"), num(64 - v)}
		}
	case k == 5:
		a := r.Intn(v + 1)
		return []tok{num(a), op("+"), num(v - a)}
	case k == 6 && len(ctrs) > 0:
		return []tok{sym(ctrs[r.Intn(len(ctrs))]), op("-"), num(1)}
	default:
		return []tok{num(v), op("*"), num(1)}
	}
}

func (g *forGen) operand(ctrs []string) []tok {
	r := g.r
	var t []tok
	switch k := r.Intn(6); {
	case k < 2 && len(ctrs) > 0:
		t = []tok{sym(ctrs[r.Intn(len(ctrs))])}
	case k == 2 && len(ctrs) > 0:
		t = []tok{sym(ctrs[r.Intn(len(ctrs))]), op("*"), num(1 + r.Intn(5)), op("+"), num(r.Intn(9))}
	case k == 3 && len(ctrs) > 1:
		t = []tok{sym(ctrs[0]), op("*"), num(10), op("+"), sym(ctrs[len(ctrs)-1])}
	case k == 4 && len(g.labels) > 0:
		t = []tok{sym(g.labels[r.Intn(len(g.labels))])}
	default:
		t = []tok{num(r.Intn(30))}
	}
	return t
}

func (g *forGen) ins(ctrs []string) item {
	r := g.r
	it := item{T: "ins", Op: []string{"DAT", "MOV", "ADD", "JMP", "SPL", "DJN"}[r.Intn(6)], HasB: r.Intn(4) != 0}
	if r.Intn(2) == 0 {
		it.Am = modes94[r.Intn(8)]
	}
	it.A = g.operand(ctrs)
	if it.HasB {
		if r.Intn(2) == 0 {
			it.Bm = modes94[r.Intn(8)]
		}
		it.B = g.operand(ctrs)
	}
	return it
}

// block at nesting depth d; mult = how many times this block's text will be instantiated
func (g *forGen) block(ctrs []string, d int, mult int) (item, bool) {
	r := g.r
	max := 6
	// a block that is going to contain nested blocks gets a small count, so that three levels fit into the budget of 40
	willNest := d < 3 && r.Intn(3) == 0
	if willNest {
		max = 2
	}
	for mult*max > 40-g.total && max > 0 {
		max--
	}
	it := item{T: "for"}
	if r.Intn(4) != 0 {
		it.Ctr = fmt.Sprintf("c%d", g.nctr)
		g.nctr++
	}
	it.Count = g.countExpr(ctrs, max)
	// worst-case count for the budget: counters are at most 6
	worst := max
	if max >= 1 && r.Intn(5) == 0 {
		// a block that is written out at most once (literal count 1, sometimes 0): its body may carry line labels and, when
		// every enclosing block is of this kind too, nested blocks may carry block labels
		worst = 1
		it.Count = []tok{num(1)}
		if r.Intn(6) == 0 {
			it.Count = []tok{num(0)}
		}
	}
	g.total += mult
	inner := ctrs
	if it.Ctr != "" {
		inner = append(append([]string{}, ctrs...), it.Ctr)
	}
	// optional line labels (referenced only inside the body)
	if it.Ctr != "" && (d == 1 || mult == 1) && r.Intn(3) == 0 { // only blocks whose text is written out at most once: a labelled block inside a loop would define its label several times
		l := fmt.Sprintf("b%d", g.nlab)
		g.nlab++
		it.Labels = []string{l}
	}
	nb := 1 + r.Intn(3)
	for i := 0; i < nb; i++ {
		if d < 3 && (willNest || r.Intn(6) == 0) && g.total+mult*worst < 40 {
			b, ok := g.block(inner, d+1, mult*worst)
			if ok {
				it.Body = append(it.Body, b)
				continue
			}
		}
		saved := g.labels
		if len(it.Labels) > 0 && i > 0 {
			g.labels = append(append([]string{}, g.labels...), it.Labels...)
		}
		bi := g.ins(inner)
		if mult*worst == 1 && r.Intn(3) == 0 {
			// a body that is written out at most once may carry line labels of its own (unreferenced; the renderer gives
			// one label in four a colon)
			bi.Labels = []string{fmt.Sprintf("u%d", g.nlab)}
			g.nlab++
		}
		it.Body = append(it.Body, bi)
		g.labels = saved
	}
	return it, true
}

func genForProgram(r *rand.Rand) prog {
	p := prog{Dialect: 94, M: 8000, L: 400, P: 64, D: 100}
	g := &forGen{r: r, equs: map[string]int{}}
	var items []item
	// EQUs defined before use (the single-pass scanner requires it)
	for i := r.Intn(5); i > 0; i-- {
		n := fmt.Sprintf("k%d", len(g.equs))
		v := r.Intn(5)
		g.equs[n] = v
		toks := []tok{num(v)}
		if r.Intn(2) == 0 {
			a := r.Intn(v + 1)
			toks = []tok{num(a), op("+"), num(v - a)}
		}
		if len(g.equs) > 1 && r.Intn(2) == 0 {
			// an EQU defined through another EQU
			prev := fmt.Sprintf("k%d", len(g.equs)-2)
			d := r.Intn(3)
			toks = []tok{sym(prev), op("+"), num(d)}
			g.equs[n] = g.equs[prev] + d
		}
		if len(g.equs) > 2 && r.Intn(3) == 0 {
			// an EQU defined through two other EQUs (a diamond when one of them refers to the other)
			a, b := r.Intn(len(g.equs)-1), r.Intn(len(g.equs)-1)
			na, nb := fmt.Sprintf("k%d", a), fmt.Sprintf("k%d", b)
			toks = []tok{sym(na), op("+"), sym(nb)}
			g.equs[n] = g.equs[na] + g.equs[nb]
		}
		items = append(items, item{T: "equ", Names: []string{n}, Toks: toks})
	}
	nTop := 1 + r.Intn(4)
	for i := 0; i < nTop; i++ {
		// EQUs defined between blocks, used by the counts of later blocks
		if i > 0 && r.Intn(3) == 0 {
			n := fmt.Sprintf("k%d", len(g.equs))
			v := r.Intn(5)
			g.equs[n] = v
			toks := []tok{num(v)}
			if r.Intn(2) == 0 {
				toks = []tok{num(v + 2), op("-"), num(2)}
			}
			if len(g.equs) > 1 && r.Intn(2) == 0 {
				prev := fmt.Sprintf("k%d", len(g.equs)-2)
				d := r.Intn(3)
				toks = []tok{sym(prev), op("+"), num(d)}
				g.equs[n] = g.equs[prev] + d
			}
			items = append(items, item{T: "equ", Names: []string{n}, Toks: toks})
		}
		if r.Intn(3) == 0 {
			it := g.ins(nil)
			if r.Intn(3) == 0 {
				l := fmt.Sprintf("t%d", len(g.labels))
				it.Labels = []string{l}
				g.labels = append(g.labels, l)
			}
			items = append(items, it)
		} else if g.total < 36 {
			b, _ := g.block(nil, 1, 1)
			if len(b.Labels) > 0 && r.Intn(3) == 0 {
				// a reference to the block label from before the block
				items = append(items, item{T: "ins", Op: "JMP", A: []tok{sym(b.Labels[0])}})
			}
			items = append(items, b)
			if len(b.Labels) > 0 {
				// ... and from after it: the label is an ordinary label of the first instruction the block emits
				g.labels = append(g.labels, b.Labels...)
				if r.Intn(2) == 0 {
					items = append(items, item{T: "ins", Op: "SPL", A: []tok{sym(b.Labels[0])}, B: []tok{num(r.Intn(9))}, HasB: true})
				}
			}
		}
	}
	if r.Intn(4) != 0 {
		items = append(items, item{T: "ins", Op: "DAT", A: []tok{num(0)}, HasB: false})
	}
	p.Items = items
	return p
}

// ---------------------------------------------------------------- manual unrolling (the property's reference transformation)

func simpleVal(ts []tok, equs map[string]int) (int, bool) {
	val := func(t tok) (int, bool) {
		if t.K == "n" {
			return t.V, true
		}
		if t.K == "s" {
			v, ok := equs[t.S]
			return v, ok
		}
		return 0, false
	}
	switch len(ts) {
	case 1:
		return val(ts[0])
	case 3:
		a, ok1 := val(ts[0])
		b, ok2 := val(ts[2])
		if !ok1 || !ok2 {
			return 0, false
		}
		switch ts[1].K {
		case "+":
			return a + b, true
		case "-":
			return a - b, true
		case "*":
			return a * b, true
		}
	}
	return 0, false
}

func substToks(ts []tok, name string, v int) []tok {
	out := make([]tok, len(ts))
	for i, t := range ts {
		if t.K == "s" && t.S == name {
			out[i] = num(v)
		} else {
			out[i] = t
		}
	}
	return out
}

func substItems(items []item, name string, v int) []item {
	out := make([]item, len(items))
	for i, it := range items {
		c := it
		c.A, c.B, c.Toks, c.Count = substToks(it.A, name, v), substToks(it.B, name, v), substToks(it.Toks, name, v), substToks(it.Count, name, v)
		c.Body = substItems(it.Body, name, v)
		out[i] = c
	}
	return out
}

func unrollManual(items []item, equs map[string]int) ([]item, bool) {
	var out []item
	for _, it := range items {
		if it.T == "equ" {
			if v, ok := simpleVal(it.Toks, equs); ok {
				equs[it.Names[0]] = v
			}
		}
		if it.T != "for" {
			out = append(out, it)
			continue
		}
		n, ok := simpleVal(it.Count, equs)
		if !ok {
			return nil, false
		}
		var emitted []item
		for i := 1; i <= n; i++ {
			body := it.Body
			if it.Ctr != "" {
				body = substItems(body, it.Ctr, i)
			}
			u, ok := unrollManual(body, equs)
			if !ok {
				return nil, false
			}
			emitted = append(emitted, u...)
		}
		if len(it.Labels) > 0 {
			attached := false
			for k := range emitted {
				if emitted[k].T == "ins" {
					emitted[k].Labels = append(append([]string{}, it.Labels...), emitted[k].Labels...)
					attached = true
					break
				}
			}
			if !attached {
				return nil, false // a labelled block that emits nothing: the transformation is not defined for it
			}
		}
		out = append(out, emitted...)
	}
	return out, true
}

func cmdForAsm(args []string) {
	fs := flag.NewFlagSet("forasm", flag.ExitOnError)
	out := fs.String("out", "for", "output prefix")
	shards := fs.Int("shards", 8, "shards")
	seed := fs.Int64("seed", 1, "seed")
	n := fs.Int("n", 1000, "programs")
	fs.Parse(args)
	r := rand.New(rand.NewSource(*seed))
	w := newShardWriter(*out, *shards)
	progs, nested, withLabels, zero, unrolled := 0, 0, 0, 0, 0
	for k := 0; k < *n; k++ {
		p := genForProgram(r)
		cfg := p.cfg()
		if r.Intn(3) == 0 {
			// an unrelated, broken assembly in between (truncated inside nested blocks, missing ROF, bad count):
			// whatever it leaves behind must not influence the next program
			poison := []string{"i for 2\nj for 2\n dat i, j\n", "a for 3\n dat a\n", "for 2\nfor 2\nfor 2\n dat 0\nrof\n", "x for y\n dat 0\nrof\n", "i for 2\n dat i\nrof\nrof\n", "q for 1/0\nrof\n"}
			compileResult(poison[r.Intn(len(poison))], cfg)
		}
		var res, texts []string
		for v := 0; v < 2; v++ {
			o := &renderOpts{r: r, plain: v == 0, rich: true}
			t := render(p, o)
			texts = append(texts, t)
			res = append(res, compileResult(t, cfg))
		}
		if u, ok := unrollManual(p.Items, map[string]int{}); ok {
			q := p
			q.Items = u
			t := render(q, &renderOpts{r: r, plain: true})
			texts = append(texts, t)
			res = append(res, compileResult(t, cfg))
			unrolled++
		}
		var walk func(items []item, d int)
		walk = func(items []item, d int) {
			for _, it := range items {
				if it.T == "for" {
					if d > 0 {
						nested++
					}
					if len(it.Labels) > 0 {
						withLabels++
					}
					if len(it.Count) == 1 && it.Count[0].K == "n" && it.Count[0].V == 0 {
						zero++
					}
					walk(it.Body, d+1)
				}
			}
		}
		walk(p.Items, 0)
		w.line(fmt.Sprintf(`{"ev":"prog","p":%s,"res":[%s],"texts":%s}`, p.json(), strings.Join(res, ","), strsJSON(texts)))
		w.nextUnit()
		progs++
	}
	w.close()
	fmt.Printf(`{"programs":%d,"nested_blocks":%d,"labelled_blocks":%d,"zero_counts":%d,"manually_unrolled":%d}`+"\n", progs, nested, withLabels, zero, unrolled)
}
