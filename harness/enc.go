package main

// Generic, property-independent encoding between gmars values and the integer
// tuples used in the ndjson traces.  The tables are written here on purpose
// (instead of using gmars' String() methods) so that a change to those methods
// cannot hide a change in behaviour.

import (
	"strings"
	"bufio"
	"encoding/json"
	"fmt"
	"os"
	"strconv"

	"github.com/bobertlo/gmars"
)

var opTable = []gmars.OpCode{gmars.DAT, gmars.MOV, gmars.ADD, gmars.SUB, gmars.MUL, gmars.DIV, gmars.MOD,
	gmars.CMP, gmars.SEQ, gmars.SNE, gmars.SLT, gmars.JMP, gmars.JMZ, gmars.JMN, gmars.DJN, gmars.SPL, gmars.NOP}
var opNames = []string{"DAT", "MOV", "ADD", "SUB", "MUL", "DIV", "MOD", "CMP", "SEQ", "SNE", "SLT", "JMP", "JMZ", "JMN", "DJN", "SPL", "NOP"}
var modTable = []gmars.OpMode{gmars.F, gmars.A, gmars.B, gmars.AB, gmars.BA, gmars.X, gmars.I}
var modNames = []string{"F", "A", "B", "AB", "BA", "X", "I"}
var amTable = []gmars.AddressMode{gmars.DIRECT, gmars.IMMEDIATE, gmars.A_INDIRECT, gmars.B_INDIRECT,
	gmars.A_DECREMENT, gmars.B_DECREMENT, gmars.A_INCREMENT, gmars.B_INCREMENT}
var amNames = []string{"$", "#", "*", "@", "{", "<", "}", ">"}

// ins is the harness-side instruction: indices into the tables above + fields.
type ins struct{ Op, Mod, Am, A, Bm, B int }

func (i ins) g() gmars.Instruction {
	return gmars.Instruction{Op: opTable[i.Op], OpMode: modTable[i.Mod], AMode: amTable[i.Am],
		A: gmars.Address(i.A), BMode: amTable[i.Bm], B: gmars.Address(i.B)}
}

func idxOp(o gmars.OpCode) int {
	for k, v := range opTable {
		if v == o {
			return k
		}
	}
	return 99
}
func idxMod(o gmars.OpMode) int {
	for k, v := range modTable {
		if v == o {
			return k
		}
	}
	return 99
}
func idxAm(o gmars.AddressMode) int {
	for k, v := range amTable {
		if v == o {
			return k
		}
	}
	return 99
}

// clampAddr keeps recorded numbers inside TLC's 32-bit integers; anything
// that large is out of range for every property anyway.
func clampAddr(a gmars.Address) int {
	if a > 2000000000 {
		return 2000000000
	}
	return int(a)
}

func fromG(i gmars.Instruction) ins {
	return ins{idxOp(i.Op), idxMod(i.OpMode), idxAm(i.AMode), clampAddr(i.A), idxAm(i.BMode), clampAddr(i.B)}
}

func (i ins) json() string {
	return fmt.Sprintf("[%d,%d,%d,%d,%d,%d]", i.Op, i.Mod, i.Am, i.A, i.Bm, i.B)
}

func (i ins) String() string {
	n := func(t []string, k int) string {
		if k >= 0 && k < len(t) {
			return t[k]
		}
		return "?" + strconv.Itoa(k)
	}
	return fmt.Sprintf("%s.%s %s%d, %s%d", n(opNames, i.Op), n(modNames, i.Mod), n(amNames, i.Am), i.A, n(amNames, i.Bm), i.B)
}

func insListJSON(l []ins) string {
	b := make([]byte, 0, 16*len(l)+2)
	b = append(b, '[')
	for k, i := range l {
		if k > 0 {
			b = append(b, ',')
		}
		b = append(b, i.json()...)
	}
	b = append(b, ']')
	return string(b)
}

func intsJSON(l []int) string {
	b := []byte{'['}
	for k, i := range l {
		if k > 0 {
			b = append(b, ',')
		}
		b = strconv.AppendInt(b, int64(i), 10)
	}
	return string(append(b, ']'))
}

func addrsToInts(l []gmars.Address) []int {
	r := make([]int, len(l))
	for k, a := range l {
		r[k] = clampAddr(a)
	}
	return r
}

func boolsJSON(l []bool) string {
	b := []byte{'['}
	for k, i := range l {
		if k > 0 {
			b = append(b, ',')
		}
		if i {
			b = append(b, "true"...)
		} else {
			b = append(b, "false"...)
		}
	}
	return string(append(b, ']'))
}

// shardWriter distributes ndjson records over n files round-robin by "unit"
// (a unit = one self-contained trace; all its lines go to the same shard).
type shardWriter struct {
	files []*os.File
	bufs  []*bufio.Writer
	lines []int
	cur   int
}

func newShardWriter(prefix string, n int) *shardWriter { return newShardWriterMode(prefix, n, false) }

func newShardWriterMode(prefix string, n int, app bool) *shardWriter {
	w := &shardWriter{}
	for i := 0; i < n; i++ {
		flags := os.O_CREATE | os.O_WRONLY | os.O_TRUNC
		if app {
			flags = os.O_CREATE | os.O_WRONLY | os.O_APPEND
		}
		f, err := os.OpenFile(fmt.Sprintf("%s.%03d.ndjson", prefix, i), flags, 0644)
		if err != nil {
			fatal("create shard: %v", err)
		}
		w.files = append(w.files, f)
		w.bufs = append(w.bufs, bufio.NewWriterSize(f, 1<<20))
		w.lines = append(w.lines, 0)
	}
	return w
}

// nextUnit moves to the next shard (call between independent traces).
func (w *shardWriter) nextUnit() { w.cur = (w.cur + 1) % len(w.files) }

func (w *shardWriter) line(s string) {
	w.bufs[w.cur].WriteString(s)
	w.bufs[w.cur].WriteByte('\n')
	w.lines[w.cur]++
}

func (w *shardWriter) close() {
	for i := range w.files {
		w.bufs[i].Flush()
		w.files[i].Close()
	}
}

func fatal(f string, a ...interface{}) {
	fmt.Fprintf(os.Stderr, "harness: "+f+"\n", a...)
	os.Exit(2)
}

func readNDJSON(path string) []map[string]interface{} {
	f, err := os.Open(path)
	if err != nil {
		fatal("open %s: %v", path, err)
	}
	defer f.Close()
	var out []map[string]interface{}
	sc := bufio.NewScanner(f)
	sc.Buffer(make([]byte, 1<<20), 1<<28)
	for sc.Scan() {
		if len(sc.Bytes()) == 0 {
			continue
		}
		var m map[string]interface{}
		if err := json.Unmarshal(sc.Bytes(), &m); err != nil {
			fatal("parse %s: %v", path, err)
		}
		out = append(out, m)
	}
	return out
}

func jint(v interface{}) int {
	f, ok := v.(float64)
	if !ok {
		return 0
	}
	return int(f)
}

func jints(v interface{}) []int {
	l, _ := v.([]interface{})
	r := make([]int, len(l))
	for i, x := range l {
		r[i] = jint(x)
	}
	return r
}

func jins(v interface{}) ins {
	t := jints(v)
	if len(t) != 6 {
		fatal("bad instruction tuple %v", v)
	}
	return ins{t[0], t[1], t[2], t[3], t[4], t[5]}
}

func jinsList(v interface{}) []ins {
	l, _ := v.([]interface{})
	r := make([]ins, len(l))
	for i, x := range l {
		r[i] = jins(x)
	}
	return r
}

// jq renders a Go string as a JSON string literal (Go's %q is not JSON for control bytes)
func jq(s string) string {
	b, err := json.Marshal(s)
	if err != nil {
		return `"?"`
	}
	return string(b)
}

func mustJSON(v interface{}) string {
	b, err := json.Marshal(v)
	if err != nil {
		return "null"
	}
	return string(b)
}

// shapeOK: a token stream handed to a Tokens() consumer must end with exactly one terminator (end of file or error)
// and contain none before it - otherwise the consumer stops early or waits forever (the Shape property of Pipeline.tla).
func shapeOK(classes []string) bool {
	isTerm := func(c string) bool { return c == "eof" || c == "err" || strings.HasPrefix(c, "eof:") || strings.HasPrefix(c, "err:") }
	if len(classes) == 0 || !isTerm(classes[len(classes)-1]) {
		return false
	}
	for _, c := range classes[:len(classes)-1] {
		if isTerm(c) {
			return false
		}
	}
	return true
}
