package main

// "outs": inputs for C06 - whatever CompileWarrior ACCEPTS must be well-formed / legal.  Valid programs,
// near-valid mutations and token soup under many configurations; every result is logged with its text:
//   {"ev":"out","dialect","M","L","P","D","text","res":<result>}

import (
	"flag"
	"fmt"
	"math/rand"
	"strings"

	"github.com/bobertlo/gmars"
)

func outEvent(text string, p prog) string {
	return fmt.Sprintf(`{"ev":"out","dialect":%d,"M":%d,"L":%d,"P":%d,"D":%d,"text":%s,"res":%s}`, p.Dialect, p.M, p.L, p.P, p.D, jq(text), compileResult(text, p.cfg()))
}

var soupTokens = []string{"mov", "dat", "add", "jmp", "spl", "mul", "seq", "nop", "equ", "org", "end", "for", "rof", "x", "y", "lbl", "0", "1", "7", "8000", "-1",
	"#", "$", "@", "<", ">", "*", "{", "}", ",", ":", "+", "-", "/", "%", "(", ")", ";c", "\n", "\n", " ", ".f", ".i", ".ab", "mov.i", "dat.f", "CORESIZE", "MAXLENGTH", "==", "&&", "!", "=", "|", "\x1a", "\t", "\u00e9", "\u03bbx", ";assert 1 ; r"}

func cmdOuts(args []string) {
	fs := flag.NewFlagSet("outs", flag.ExitOnError)
	out := fs.String("out", "outs", "output prefix")
	shards := fs.Int("shards", 8, "shards")
	seed := fs.Int64("seed", 1, "seed")
	n := fs.Int("n", 5000, "inputs")
	fs.Parse(args)
	r := rand.New(rand.NewSource(*seed))
	w := newShardWriter(*out, *shards)
	total, accepted := 0, 0
	emit := func(text string, p prog) {
		l := outEvent(text, p)
		if strings.Contains(l, `"res":{"err":0`) {
			accepted++
		}
		total++
		w.line(l)
		w.nextUnit()
	}
	for k := 0; k < *n; k++ {
		d := 94
		if r.Intn(2) == 0 {
			d = 88
		}
		switch r.Intn(8) {
		case 0: // valid programs, arbitrary renderings
			p := genProgram(r, genOpts{dialect: d, maxIns: 12})
			emit(render(p, &renderOpts{r: r}), p)
		case 1: // entry point at and beyond the end
			p := genProgram(r, genOpts{dialect: d, maxIns: 5})
			nIns := 0
			var items []item
			for _, it := range p.Items {
				if it.T == "ins" {
					nIns++
				}
				if it.T != "org" && it.T != "end" {
					items = append(items, it)
				}
			}
			v := []int{nIns - 1, nIns, nIns + 1, -1, 2 * nIns, 0}[r.Intn(6)]
			var st []tok
			if v < 0 {
				st = []tok{op("-"), num(-v)}
			} else {
				st = []tok{num(v)}
			}
			if r.Intn(2) == 0 {
				items = append([]item{{T: "org", Toks: st}}, items...)
			} else {
				items = append(items, item{T: "end", Toks: st})
			}
			p.Items = items
			emit(render(p, &renderOpts{r: r, plain: true}), p)
		case 2: // length around the configured maximum
			p := genCfgAsm(r, d)
			p.L = 2 + r.Intn(5)
			if p.L+p.D > p.M {
				p.D = p.M - p.L
			}
			nIns := []int{p.L - 1, p.L, p.L + 1, 2 * p.L}[r.Intn(4)]
			var sb strings.Builder
			for i := 0; i < nIns; i++ {
				if r.Intn(6) == 0 && i+3 <= nIns {
					fmt.Fprintf(&sb, "for 3\n dat #%d, #%d\nrof\n", i, i)
					i += 2
				} else {
					fmt.Fprintf(&sb, " dat #%d, #%d\n", i, r.Intn(9))
				}
			}
			emit(sb.String(), p)
		case 3: // '94 material inside '88 programs, modifiers in '88, sloppy modes
			p := genProgram(r, genOpts{dialect: 88, maxIns: 4, sloppy88: true})
			text := render(p, &renderOpts{r: r, plain: true})
			switch r.Intn(4) {
			case 0:
				text += fmt.Sprintf(" %s %s1, %s2\n", []string{"mov", "add", "jmp", "dat", "spl", "cmp", "slt", "djn"}[r.Intn(8)], modes94[r.Intn(8)], modes94[r.Intn(8)])
			case 1:
				text += fmt.Sprintf(" %s 1, 2\n", []string{"mul", "div", "mod", "seq", "sne", "nop", "mov.i", "add.ab", "dat.f"}[r.Intn(9)])
			case 2:
				text += fmt.Sprintf(" %s #1, #2\n", []string{"mov", "add", "sub", "cmp", "slt", "jmp", "jmz", "djn", "spl", "dat"}[r.Intn(10)])
			}
			emit(text, p)
		case 4: // extreme operand values
			p := genCfgAsm(r, d)
			vals := []string{"0-CORESIZE-1", "0-CORESIZE", "-CORESIZE*2-3", "CORESIZE", "CORESIZE+1", "CORESIZE*3+2", "-1", "2147483647", "-2147483647", "0-2147483647",
				fmt.Sprint(-p.M - 1 - r.Intn(3*p.M)), fmt.Sprint(p.M + r.Intn(3*p.M)), "x"}
			a, b := vals[r.Intn(len(vals))], vals[r.Intn(len(vals))]
			mode := "$"
			if d == 88 {
				mode = "#"
			}
			text := fmt.Sprintf("x equ (0-CORESIZE*3)\n dat %s%s, %s%s\n", mode, a, mode, b)
			if r.Intn(2) == 0 {
				text = fmt.Sprintf("x equ 5-CORESIZE-CORESIZE\n jmp %s, <%s\n", a, b)
			}
			emit(text, p)
		case 5: // token soup
			p := genCfgAsm(r, d)
			var sb strings.Builder
			for i := 2 + r.Intn(14); i > 0; i-- {
				sb.WriteString(soupTokens[r.Intn(len(soupTokens))])
				if r.Intn(3) != 0 {
					sb.WriteByte(' ')
				}
			}
			sb.WriteString("\n")
			emit(sb.String(), p)
		case 6: // a valid program with one token deleted / duplicated / replaced
			p := genProgram(r, genOpts{dialect: d, maxIns: 5})
			f := strings.Fields(render(p, &renderOpts{r: r, plain: true}))
			text := render(p, &renderOpts{r: r, plain: true})
			if len(f) > 0 {
				x := f[r.Intn(len(f))]
				switch r.Intn(3) {
				case 0:
					text = strings.Replace(text, x, "", 1)
				case 1:
					text = strings.Replace(text, x, x+" "+x, 1)
				default:
					text = strings.Replace(text, x, soupTokens[r.Intn(len(soupTokens))], 1)
				}
			}
			emit(text, p)
		default: // repository-style programs under odd configurations
			p := genCfgAsm(r, d)
			if r.Intn(2) == 0 {
				p.M = 3 + r.Intn(20)
				p.L = 1 + r.Intn(p.M)
				p.D = r.Intn(p.M - p.L + 1)
			}
			text := "step equ 4\nstart add #step, bomb\n mov bomb, @bomb\n jmp start\nbomb dat #0, #0\n end start\n"
			if d == 94 && r.Intn(2) == 0 {
				text = ";name x\n org 2\n spl 0, }1\n mov.i {-1, >200\n jmp -1, <-3000\n"
			}
			emit(text, p)
		}
	}
	w.close()
	fmt.Printf(`{"inputs":%d,"accepted":%d}`+"\n", total, accepted)
}

func cmdOutsReplay(args []string) {
	fs := flag.NewFlagSet("outs-replay", flag.ExitOnError)
	in := fs.String("in", "", "ndjson with out events")
	out := fs.String("out", "", "output prefix")
	fs.Parse(args)
	evs := readNDJSON(*in)
	w := newShardWriter(*out, 1)
	for _, e := range evs {
		p := prog{Dialect: jint(e["dialect"]), M: jint(e["M"]), L: jint(e["L"]), P: jint(e["P"]), D: jint(e["D"])}
		w.line(outEvent(jstr(e["text"]), p))
	}
	w.close()
	fmt.Printf(`{"replayed":%d}`+"\n", len(evs))
}

var _ = gmars.ICWS88
