package main

// Abstract Redcode programs (the input side of Asm.tla), their JSON encoding, a seeded generator
// and the surface renderer.  Nothing here computes what a program means: that is Asm!Meaning in TLA+.

import (
	"fmt"
	"math/rand"
	"strings"

	"github.com/bobertlo/gmars"
)

type tok struct {
	K string // "n", "s", "+", "-", "*", "/", "%", "(", ")"
	V int
	S string
}

func num(v int) tok  { return tok{K: "n", V: v} }
func sym(s string) tok { return tok{K: "s", S: s} }
func op(k string) tok  { return tok{K: k} }

type item struct {
	T      string // ins equ org end assert meta for
	Labels []string
	Op     string
	Mod    string
	Am, Bm string
	A, B   []tok
	HasB   bool
	Names  []string
	Toks   []tok
	K, V   string
	Ctr    string
	Count  []tok
	N      int
	Body   []item
}

type prog struct {
	Dialect, M, L, P, D int
	Items               []item
}

func (p prog) cfg() gmars.SimulatorConfig {
	mode := gmars.ICWS94
	if p.Dialect == 88 {
		mode = gmars.ICWS88
	} else if (p.M+p.L+p.P)%2 == 1 {
		mode = gmars.NOP94 // the third simulator mode is a '94 dialect too (a function of the program, so that replays agree)
	}
	return gmars.SimulatorConfig{Mode: mode, CoreSize: gmars.Address(p.M), Processes: gmars.Address(p.P), Cycles: 1000,
		ReadLimit: gmars.Address(p.M), WriteLimit: gmars.Address(p.M), Length: gmars.Address(p.L), Distance: gmars.Address(p.D)}
}

func toksJSON(ts []tok) string {
	var sb strings.Builder
	sb.WriteByte('[')
	for i, t := range ts {
		if i > 0 {
			sb.WriteByte(',')
		}
		switch t.K {
		case "n":
			fmt.Fprintf(&sb, `["n",%d]`, t.V)
		case "s":
			fmt.Fprintf(&sb, `["s",%q]`, t.S)
		default:
			fmt.Fprintf(&sb, `[%q]`, t.K)
		}
	}
	sb.WriteByte(']')
	return sb.String()
}

func strsJSON(l []string) string {
	var sb strings.Builder
	sb.WriteByte('[')
	for i, s := range l {
		if i > 0 {
			sb.WriteByte(',')
		}
		sb.WriteString(jq(s))
	}
	sb.WriteByte(']')
	return sb.String()
}

func itemsJSON(items []item) string {
	var sb strings.Builder
	sb.WriteByte('[')
	for i, it := range items {
		if i > 0 {
			sb.WriteByte(',')
		}
		switch it.T {
		case "ins":
			hb := "false"
			if it.HasB {
				hb = "true"
			}
			fmt.Fprintf(&sb, `{"t":"ins","labels":%s,"op":%q,"mod":%q,"am":%q,"a":%s,"bm":%q,"b":%s,"hasb":%s}`,
				strsJSON(it.Labels), it.Op, it.Mod, it.Am, toksJSON(it.A), it.Bm, toksJSON(it.B), hb)
		case "equ":
			fmt.Fprintf(&sb, `{"t":"equ","names":%s,"toks":%s}`, strsJSON(it.Names), toksJSON(it.Toks))
		case "org", "assert":
			fmt.Fprintf(&sb, `{"t":%q,"toks":%s}`, it.T, toksJSON(it.Toks))
		case "end":
			fmt.Fprintf(&sb, `{"t":"end","labels":%s,"toks":%s}`, strsJSON(it.Labels), toksJSON(it.Toks))
		case "meta":
			fmt.Fprintf(&sb, `{"t":"meta","k":%q,"v":%q}`, it.K, it.V)
		case "for":
			fmt.Fprintf(&sb, `{"t":"for","labels":%s,"ctr":%q,"count":%s,"n":%d,"body":%s}`, strsJSON(it.Labels), it.Ctr, toksJSON(it.Count), it.N, itemsJSON(it.Body))
		}
	}
	sb.WriteByte(']')
	return sb.String()
}

func (p prog) json() string {
	return fmt.Sprintf(`{"dialect":%d,"M":%d,"L":%d,"P":%d,"D":%d,"items":%s}`, p.Dialect, p.M, p.L, p.P, p.D, itemsJSON(p.Items))
}

// ---------------------------------------------------------------- rendering

type renderOpts struct {
	r        *rand.Rand
	rename   map[string]string
	plain    bool // canonical, no surface variation
	zeroPad  bool
	noFinalN bool
	rich     bool // also: trailing comments on EQU/FOR/ROF lines, colon after a block label, unterminated last line
}

var reserved = map[string]bool{"equ": true, "org": true, "end": true, "for": true, "rof": true, "dat": true, "mov": true, "add": true, "sub": true,
	"mul": true, "div": true, "mod": true, "jmp": true, "jmz": true, "jmn": true, "djn": true, "cmp": true, "seq": true, "sne": true, "slt": true,
	"spl": true, "nop": true, "coresize": true, "maxlength": true, "maxprocesses": true, "mindistance": true}

func (o *renderOpts) name(s string) string {
	if o.rename != nil {
		if n, ok := o.rename[s]; ok {
			return n
		}
	}
	return s
}

func (o *renderOpts) sp() string {
	if o.plain {
		return " "
	}
	switch o.r.Intn(5) {
	case 0:
		return "  "
	case 1:
		return "\t"
	case 2:
		return " \t "
	default:
		return " "
	}
}

func (o *renderOpts) osp() string { // optional space
	if o.plain || o.r.Intn(2) == 0 {
		return ""
	}
	return " "
}

func (o *renderOpts) caseOf(s string) string {
	if o.plain {
		return strings.ToLower(s)
	}
	switch o.r.Intn(3) {
	case 0:
		return strings.ToUpper(s)
	case 1:
		return strings.ToLower(s)
	default:
		b := []byte(strings.ToLower(s))
		for i := range b {
			if o.r.Intn(2) == 0 && b[i] >= 'a' && b[i] <= 'z' {
				b[i] -= 32
			}
		}
		return string(b)
	}
}

func (o *renderOpts) expr(ts []tok) string {
	var sb strings.Builder
	for i, t := range ts {
		if i > 0 {
			prev := ts[i-1]
			// a space is needed between two names/numbers only; otherwise optional
			if (prev.K == "n" || prev.K == "s") && (t.K == "n" || t.K == "s") {
				sb.WriteByte(' ')
			} else {
				sb.WriteString(o.osp())
			}
		}
		switch t.K {
		case "n":
			if o.zeroPad && o.r.Intn(4) == 0 {
				sb.WriteString(strings.Repeat("0", 1+o.r.Intn(2)))
			}
			fmt.Fprintf(&sb, "%d", t.V)
		case "s":
			sb.WriteString(o.name(t.S))
		default:
			sb.WriteString(t.K)
		}
	}
	return sb.String()
}

func (o *renderOpts) comment() string {
	// (the last five only begin with the letters of a keyword: they are plain comments)
	c := []string{"; a comment", ";", ";; x equ 5", "; mov 0, 1", ";redcode", "; end",
		";nameless wonder", ";authority x", ";strategyxyz", ";asserted by me", ";assertion 0"}
	return c[o.r.Intn(len(c))]
}

func (o *renderOpts) filler(sb *strings.Builder) {
	if o.plain {
		return
	}
	for o.r.Intn(4) == 0 {
		if o.r.Intn(2) == 0 {
			sb.WriteString("\n")
		} else {
			sb.WriteString(o.comment() + "\n")
		}
	}
}

func (o *renderOpts) labels(sb *strings.Builder, ls []string) {
	for _, l := range ls {
		sb.WriteString(o.name(l))
		if !o.plain && o.r.Intn(4) == 0 {
			sb.WriteString(":")
		}
		if !o.plain && o.r.Intn(5) == 0 {
			sb.WriteString("\n")
			if o.r.Intn(3) == 0 {
				sb.WriteString(o.comment() + "\n")
			}
		} else {
			sb.WriteString(o.sp())
		}
	}
}

func (o *renderOpts) eol(sb *strings.Builder) {
	if !o.plain && o.r.Intn(5) == 0 {
		sb.WriteString(o.sp() + o.comment())
	}
	sb.WriteString("\n")
}

func (o *renderOpts) items(sb *strings.Builder, items []item) {
	skipLabels := false
	for k, it := range items {
		o.filler(sb)
		// layout only: the labels of the next instruction stand on their own line ABOVE this metadata or ;assert comment
		if (it.T == "meta" || it.T == "assert") && o.rich && !o.plain && k+1 < len(items) && items[k+1].T == "ins" && len(items[k+1].Labels) > 0 && o.r.Intn(2) == 0 {
			for _, l := range items[k+1].Labels {
				sb.WriteString(o.name(l))
				if o.r.Intn(3) == 0 {
					sb.WriteString(":")
				}
				sb.WriteString("\n")
			}
			skipLabels = true
		}
		switch it.T {
		case "ins":
			if o.plain {
				sb.WriteString("")
			}
			if skipLabels {
				skipLabels = false
				sb.WriteString(o.sp())
			} else {
				o.labels(sb, it.Labels)
				if len(it.Labels) == 0 {
					sb.WriteString(o.sp())
				}
			}
			opc := o.caseOf(it.Op)
			if it.Mod != "" {
				opc += "." + o.caseOf(it.Mod)
			}
			sb.WriteString(opc + o.sp())
			sb.WriteString(it.Am + o.osp() + o.expr(it.A))
			if it.HasB {
				sb.WriteString(o.osp() + "," + o.osp() + it.Bm + o.osp() + o.expr(it.B))
			}
			o.eol(sb)
		case "equ":
			sb.WriteString(o.name(it.Names[0]) + o.sp() + o.caseOf("equ") + o.sp() + o.expr(it.Toks))
			if o.rich {
				o.eol(sb)
			} else {
				sb.WriteString("\n")
			}
		case "org":
			sb.WriteString(o.sp() + o.caseOf("org") + o.sp() + o.expr(it.Toks))
			o.eol(sb)
		case "end":
			o.labels(sb, it.Labels)
			sb.WriteString(o.sp() + o.caseOf("end"))
			if len(it.Toks) > 0 {
				sb.WriteString(o.sp() + o.expr(it.Toks))
			}
			sb.WriteString("\n")
		case "assert":
			sb.WriteString(";assert " + o.expr(it.Toks) + "\n")
		case "meta":
			sb.WriteString(";" + it.K + " " + it.V)
			if o.rich && !o.plain && o.r.Intn(4) == 0 {
				sb.WriteString([]string{" ", "  \t", "\t"}[o.r.Intn(3)]) // trailing blanks are spacing
			}
			sb.WriteString("\n")
		case "for":
			for _, l := range it.Labels {
				sb.WriteString(o.name(l))
				if o.rich && !o.plain && o.r.Intn(3) == 0 {
					sb.WriteString(":")
				}
				sb.WriteString(o.sp())
			}
			if it.Ctr != "" {
				sb.WriteString(o.name(it.Ctr) + o.sp())
			} else {
				sb.WriteString(o.sp())
			}
			sb.WriteString(o.caseOf("for") + o.sp() + o.expr(it.Count))
			if o.rich {
				o.eol(sb)
			} else {
				sb.WriteString("\n")
			}
			o.items(sb, it.Body)
			sb.WriteString(o.sp() + o.caseOf("rof"))
			if o.rich {
				o.eol(sb)
			} else {
				sb.WriteString("\n")
			}
		}
	}
}

func render(p prog, o *renderOpts) string {
	var sb strings.Builder
	o.items(&sb, p.Items)
	o.filler(&sb)
	s := sb.String()
	if !strings.HasSuffix(s, "\n") {
		s += "\n"
	}
	if o.rich && !o.plain && o.r.Intn(6) == 0 {
		s = strings.TrimRight(s, "\n") // the last line is not terminated
	}
	return s
}

// names used by a program (labels, EQU names, counters), for respelling
func collectNames(items []item, into map[string]bool) {
	for _, it := range items {
		for _, l := range it.Labels {
			into[l] = true
		}
		for _, l := range it.Names {
			into[l] = true
		}
		if it.Ctr != "" {
			into[it.Ctr] = true
		}
		collectNames(it.Body, into)
	}
}

func respell(r *rand.Rand, p prog) map[string]string {
	names := map[string]bool{}
	collectNames(p.Items, names)
	used := map[string]bool{}
	m := map[string]string{}
	alphabet := "abcdefghijklmnopqrstuvwxyzABCDEFGHIJKLMNOPQRSTUVWXYZ_"
	// deterministic order
	var keys []string
	for k := range names {
		keys = append(keys, k)
	}
	sortStrings(keys)
	for _, k := range keys {
		for {
			n := 1 + r.Intn(8)
			b := make([]byte, n)
			for i := range b {
				if i > 0 && r.Intn(4) == 0 {
					b[i] = "0123456789"[r.Intn(10)]
				} else {
					b[i] = alphabet[r.Intn(len(alphabet))]
				}
			}
			s := string(b)
			if reserved[strings.ToLower(s)] || used[s] || strings.HasPrefix(s, "__for") {
				continue
			}
			used[s] = true
			m[k] = s
			break
		}
	}
	return m
}

func sortStrings(a []string) {
	for i := 1; i < len(a); i++ {
		for j := i; j > 0 && a[j] < a[j-1]; j-- {
			a[j], a[j-1] = a[j-1], a[j]
		}
	}
}

// move EQU lines to other item boundaries (never after END)
func moveEqus(r *rand.Rand, p prog) prog {
	var equs, rest []item
	for _, it := range p.Items {
		if it.T == "equ" {
			equs = append(equs, it)
		} else {
			rest = append(rest, it)
		}
	}
	limit := len(rest)
	for i, it := range rest {
		if it.T == "end" {
			limit = i
		}
	}
	r.Shuffle(len(equs), func(i, j int) { equs[i], equs[j] = equs[j], equs[i] })
	out := rest
	for _, e := range equs {
		pos := r.Intn(limit + 1)
		out = append(out[:pos:pos], append([]item{e}, out[pos:]...)...)
		limit++
	}
	q := p
	q.Items = out
	return q
}

func compileResult(text string, cfg gmars.SimulatorConfig) (res string) {
	defer func() {
		if e := recover(); e != nil {
			res = fmt.Sprintf(`{"err":2,"panic":%s}`, jq(fmt.Sprint(e)))
		}
	}()
	w, err := gmars.CompileWarrior(strings.NewReader(text), cfg)
	if err != nil {
		return fmt.Sprintf(`{"err":1,"msg":%s}`, jq(err.Error()))
	}
	code := make([]ins, len(w.Code))
	for i := range w.Code {
		code[i] = fromG(w.Code[i])
	}
	return fmt.Sprintf(`{"err":0,"code":%s,"start":%d,"name":%s,"author":%s,"strategy":%s}`, insListJSON(code), w.Start, jq(w.Name), jq(w.Author), jq(w.Strategy))
}
