package main

// "apicases": replay TLC-generated witness histories (MC_API.tla, invariant Emit): one per reachable state of the
// API-level specification.  {"hist":[[call..]..],"obs":{cycle,living,alive,q,core,partial},"M","P","C","pool":[..]}
// The history is executed on the real simulator and the final observation must equal the spec's.

import (
	"flag"
	"fmt"
	"strings"
	"time"

	"github.com/bobertlo/gmars"
)

func nameIdx(tab []string, s string) int {
	for i, x := range tab {
		if x == s {
			return i
		}
	}
	return 99
}

func specIns(v interface{}) ins {
	m := v.(map[string]interface{})
	return ins{nameIdx(opNames, jstr(m["op"])), nameIdx(modNames, jstr(m["mod"])), nameIdx(amNames, jstr(m["am"])), jint(m["a"]), nameIdx(amNames, jstr(m["bm"])), jint(m["b"])}
}

func cmdAPICases(args []string) {
	fs := flag.NewFlagSet("apicases", flag.ExitOnError)
	in := fs.String("in", "", "ndjson with TLC cases")
	out := fs.String("out", "", "output prefix (mismatches)")
	fs.Parse(args)
	w := newShardWriter(*out, 1)
	n, bad, calls := 0, 0, 0
	for _, c := range readNDJSON(*in) {
		cfg := simCfg{M: jint(c["M"]), P: jint(c["P"]), C: jint(c["C"]), RL: jint(c["M"]), WL: jint(c["M"])}
		var pool []wdata
		for _, p := range c["pool"].([]interface{}) {
			pm := p.(map[string]interface{})
			var code []ins
			for _, i := range pm["code"].([]interface{}) {
				code = append(code, specIns(i))
			}
			pool = append(pool, wdata{code, jint(pm["start"])})
		}
		b, _ := newBattle(cfg, false)
		pan, hung := "", false
		func() {
			defer func() {
				if e := recover(); e != nil {
					pan = fmt.Sprint(e)
				}
			}()
			for _, h := range c["hist"].([]interface{}) {
				call := h.([]interface{})
				calls++
				switch call[0].(string) {
				case "add":
					wr, _ := b.sim.AddWarrior(pool[jint(call[1])].g())
					b.ws = append(b.ws, wr)
				case "spawn":
					b.sim.SpawnWarrior(jint(call[1]), gmars.Address(jint(call[2])))
				case "cycle":
					b.sim.RunCycle()
				case "reset":
					b.sim.Reset()
				case "run":
					done := make(chan bool, 1)
					go func() {
						defer func() { recover(); done <- true }()
						b.sim.Run()
					}()
					select {
					case <-done:
					case <-time.After(20 * time.Second):
						hung = true
						panic("Run() did not return")
					}
				}
			}
		}()
		n++
		// observe and compare
		obs := c["obs"].(map[string]interface{})
		var diffs []string
		if pan != "" {
			diffs = append(diffs, "panic: "+pan)
		} else {
			if b.sim.CycleCount() != jint(obs["cycle"]) {
				diffs = append(diffs, fmt.Sprintf("cycle %d want %d", b.sim.CycleCount(), jint(obs["cycle"])))
			}
			if b.sim.WarriorLivingCount() != jint(obs["living"]) {
				diffs = append(diffs, fmt.Sprintf("living %d want %d", b.sim.WarriorLivingCount(), jint(obs["living"])))
			}
			alive := jints(obs["alive"])
			qs, _ := obs["q"].([]interface{})
			if len(alive) != len(b.ws) {
				diffs = append(diffs, "warrior count")
			} else {
				for i, wr := range b.ws {
					if (alive[i] == 1) != wr.Alive() {
						diffs = append(diffs, fmt.Sprintf("alive[%d]", i))
					}
					if alive[i] == 1 && intsJSON(addrsToInts(wr.Queue())) != intsJSON(jints(qs[i])) {
						diffs = append(diffs, fmt.Sprintf("queue[%d] %v want %v", i, wr.Queue(), jints(qs[i])))
					}
				}
			}
			core, _ := obs["core"].([]interface{})
			for a := 0; a < cfg.M && a < len(core); a++ {
				if got, want := fromG(b.sim.GetMem(gmars.Address(a))), specIns(core[a]); got != want {
					diffs = append(diffs, fmt.Sprintf("core[%d] %s want %s", a, got, want))
				}
			}
		}
		if len(diffs) > 0 {
			bad++
			w.line(fmt.Sprintf(`{"hist":%s,"diffs":%s,"case":%s}`, mustJSON(c["hist"]), strsJSON(diffs), mustJSON(c)))
			if hung || bad >= 40 {
				break
			}
		}
	}
	w.close()
	fmt.Printf(`{"cases":%d,"mismatches":%d,"calls":%d}`+"\n", n, bad, calls)
}

var _ = strings.Join
