package main

import (
	"fmt"
	"os"
	"strconv"
	"strings"
)

func parseInts(s string) []int {
	var r []int
	for _, f := range strings.Split(s, ",") {
		f = strings.TrimSpace(f)
		if f == "" {
			continue
		}
		v, err := strconv.Atoi(f)
		if err != nil {
			fatal("bad integer list %q", s)
		}
		r = append(r, v)
	}
	return r
}

var commands = map[string]func([]string){}

func main() {
	commands["steps"] = cmdSteps
	commands["battles"] = cmdBattles
	commands["rot"] = cmdRot
	commands["rot-replay"] = cmdRotReplay
	commands["api"] = cmdAPI
	commands["queue"] = cmdQueue
	commands["loader"] = cmdLoader
	commands["parse"] = cmdParse
	commands["scan"] = cmdScan
	commands["apicases"] = cmdAPICases
	commands["asm"] = cmdAsm
	commands["lx"] = cmdLX
	commands["probe88"] = cmdProbe88
	commands["cli"] = cmdCLI
	commands["cli-replay"] = cmdCLIReplay
	commands["loadrt"] = cmdLoadRT
	commands["rt-replay"] = cmdRTReplay
	commands["loadcorrupt"] = cmdLoadCorrupt
	commands["listing"] = cmdListing
	commands["fuzz"] = cmdFuzz
	commands["equgraphs"] = cmdEquGraphs
	commands["fx"] = cmdFX
	commands["outs"] = cmdOuts
	commands["outs-replay"] = cmdOutsReplay
	commands["forasm"] = cmdForAsm
	commands["prog-replay"] = cmdProgReplay
	commands["alias"] = cmdAlias
	commands["jobs"] = cmdJobs
	commands["api-replay"] = cmdAPIReplay
	commands["configs"] = cmdConfigs
	commands["battles-replay"] = cmdBattlesReplay
	commands["steps-replay"] = cmdStepsReplay
	commands["suite-convert"] = cmdSuiteConvert
	if len(os.Args) < 2 {
		fatal("usage: vharness <command> [flags]")
	}
	c, ok := commands[os.Args[1]]
	if !ok {
		fmt.Fprintf(os.Stderr, "unknown command %q\n", os.Args[1])
		os.Exit(2)
	}
	c(os.Args[2:])
}
