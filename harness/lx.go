package main

// "lx": replay TLC-generated lexer cases (Lexer.tla, invariant Emit) through the REAL lexer (verif accessor).
//   {"in":[rune class representatives..],"out":[[type,value]..]}
// Output token types and values must be identical and no lexer goroutine may survive.

import (
	"flag"
	"fmt"
	"runtime"
	"strings"
	"time"

	"github.com/bobertlo/gmars"
)

var lxTypes = map[int]string{gmars.VerifTokError: "err", gmars.VerifTokText: "text", gmars.VerifTokNumber: "num", gmars.VerifTokSymbol: "sym",
	gmars.VerifTokComma: "comma", gmars.VerifTokColon: "colon", gmars.VerifTokParenL: "lp", gmars.VerifTokParenR: "rp", gmars.VerifTokComment: "cmt",
	gmars.VerifTokNewline: "nl", gmars.VerifTokInvalid: "inv", gmars.VerifTokEOF: "eof"}

func cmdLX(args []string) {
	fs := flag.NewFlagSet("lx", flag.ExitOnError)
	in := fs.String("in", "", "ndjson with TLC cases")
	out := fs.String("out", "", "output prefix (mismatches)")
	fs.Parse(args)
	w := newShardWriter(*out, 1)
	n, bad, div := 0, 0, 0
	for _, c := range readNDJSON(*in) {
		var sb strings.Builder
		for _, x := range c["in"].([]interface{}) {
			switch r := x.(string); r {
			case "Z":
				sb.WriteByte(0x1a)
			case "N":
				sb.WriteByte(0)
			default:
				sb.WriteString(r)
			}
		}
		var want []string
		for _, x := range c["out"].([]interface{}) {
			t := x.([]interface{})
			if t[0].(string) == "err" {
				want = append(want, "err")
			} else {
				want = append(want, t[0].(string)+":"+t[1].(string))
			}
		}
		base := runtime.NumGoroutine()
		type res struct {
			toks []gmars.VerifToken
			pan  string
		}
		ch := make(chan res, 1)
		go func() {
			x := res{}
			defer func() {
				if e := recover(); e != nil {
					x.pan = fmt.Sprint(e)
				}
				ch <- x
			}()
			x.toks, _ = gmars.VerifLex(sb.String())
		}()
		var got []string
		pan, hung := "", 0
		select {
		case x := <-ch:
			pan = x.pan
			for _, t := range x.toks {
				if t.Typ == gmars.VerifTokError {
					got = append(got, "err")
				} else {
					v := strings.NewReplacer("\x1a", "Z", "\x00", "N").Replace(t.Val)
					got = append(got, lxTypes[t.Typ]+":"+v)
				}
			}
		case <-time.After(20 * time.Second):
			hung = 1
		}
		leak, frame := 0, ""
		for i := 0; i < 200 && runtime.NumGoroutine() > base; i++ {
			runtime.Gosched()
		}
		if hung == 0 && runtime.NumGoroutine() > base {
			leak, frame = settled()
		}
		n++
		// property (C05): the lexer returns, does not panic, leaves no goroutine, and its stream is well terminated; a token
		// list that merely differs from the model's is a divergence between model and code, not a violation
		prop := hung == 1 || pan != "" || leak > 0 || !shapeOK(got)
		if prop || strings.Join(got, "\x01") != strings.Join(want, "\x01") {
			kind := "divergence"
			if prop {
				kind = "property"
				bad++
			} else {
				div++
			}
			if prop || div <= 25 {
				w.line(fmt.Sprintf(`{"kind":%q,"in":%s,"want":%s,"got":%s,"panic":%s,"hung":%d,"leak":%d,"frame":%s}`, kind, mustJSON(c["in"]), strsJSON(want), strsJSON(got), jq(pan), hung, leak, jq(frame)))
			}
			if hung == 1 || bad >= 25 {
				break // enough evidence; every further leaking case costs a settle loop
			}
		}
	}
	w.close()
	fmt.Printf(`{"cases":%d,"mismatches":%d,"divergences":%d}`+"\n", n, bad, div)
}
