package main

// Load files, listings and the command-line tool (C09, C10, C16, C17).

import (
	"bytes"
	"flag"
	"fmt"
	"math/rand"
	"os"
	"os/exec"
	"path/filepath"
	"strconv"
	"strings"

	"github.com/bobertlo/gmars"
)

// ---------------------------------------------------------------- canonical load-file printer (trusted, generic)

func printLoadFile(code []ins, start int, dialect, m int, r *rand.Rand, signed bool) string {
	var sb strings.Builder
	if dialect == 94 {
		fmt.Fprintf(&sb, "       ORG      %d\n", start)
	}
	for _, i := range code {
		a, b := i.A, i.B
		if signed || (r != nil && r.Intn(2) == 0) {
			if a > m/2 {
				a -= m
			}
		}
		if signed || (r != nil && r.Intn(2) == 0) {
			if b > m/2 {
				b -= m
			}
		}
		// a signed zero is a signed spelling of 0 (-M is not used: a reader may refuse literals outside (-M, M), allowed/V6)
		num := func(v int) string {
			if v == 0 && r != nil && r.Intn(5) == 0 {
				return "-0"
			}
			return fmt.Sprint(v)
		}
		if dialect == 94 {
			fmt.Fprintf(&sb, "       %s.%-2s %s %5s, %s %5s\n", opNames[i.Op], modNames[i.Mod], amNames[i.Am], num(a), amNames[i.Bm], num(b))
		} else {
			fmt.Fprintf(&sb, "       %-6s %s %5s, %s %5s\n", opNames[i.Op], amNames[i.Am], num(a), amNames[i.Bm], num(b))
		}
	}
	if dialect == 88 {
		fmt.Fprintf(&sb, "       END      %d\n", start)
	}
	return sb.String()
}

// layout-only perturbations
func perturb(r *rand.Rand, text string) (string, []string) {
	var applied []string
	lines := strings.Split(strings.TrimSuffix(text, "\n"), "\n")
	if r.Intn(2) == 0 { // letter case
		applied = append(applied, "case")
		for i, l := range lines {
			switch r.Intn(4) {
			case 0:
				lines[i] = strings.ToLower(l)
			case 1:
				lines[i] = strings.ToUpper(l)
			case 2: // mixed case, letter by letter
				b := []byte(strings.ToLower(l))
				for j := range b {
					if b[j] >= 'a' && b[j] <= 'z' && r.Intn(2) == 0 {
						b[j] -= 32
					}
				}
				lines[i] = string(b)
			}
		}
	}
	if r.Intn(2) == 0 { // blanks and tabs
		applied = append(applied, "blanks")
		for i, l := range lines {
			l = strings.Replace(l, "       ", []string{"\t", " ", "  \t ", ""}[r.Intn(4)], 1)
			if r.Intn(2) == 0 {
				l = strings.Replace(l, ", ", []string{",", " , ", ",\t", "  ,  "}[r.Intn(4)], 1)
			}
			if r.Intn(3) == 0 {
				l += []string{" ", "\t", "   "}[r.Intn(3)]
			}
			if r.Intn(3) == 0 { // tabs as the separator between any two tokens
				f := strings.Fields(l)
				l = strings.Join(f, []string{"\t", "\t\t", " \t"}[r.Intn(3)])
			}
			lines[i] = l
		}
	}
	if r.Intn(2) == 0 { // comment and blank lines, trailing comments, metadata
		applied = append(applied, "comments")
		var out []string
		extra := []string{"", "; a comment", ";redcode-94", ";name Test Warrior", ";author Some One", ";strategy kill", ";assert 1", "   ", "\t", ";"}
		for _, l := range lines {
			for r.Intn(4) == 0 {
				out = append(out, extra[r.Intn(len(extra))])
			}
			if r.Intn(5) == 0 {
				l += " ; trailing"
			}
			out = append(out, l)
		}
		for r.Intn(3) == 0 {
			out = append(out, extra[r.Intn(len(extra))])
		}
		lines = out
	}
	sep := "\n"
	if r.Intn(3) == 0 {
		applied = append(applied, "crlf")
		sep = "\r\n"
	}
	t := strings.Join(lines, sep) + sep
	if r.Intn(3) == 0 {
		applied = append(applied, "nofinalnewline")
		t = strings.TrimSuffix(t, sep)
	}
	return t, applied
}

func loadResult(text string, cfg gmars.SimulatorConfig) (res string) {
	defer func() {
		if e := recover(); e != nil {
			res = fmt.Sprintf(`{"err":2,"panic":%s}`, jq(fmt.Sprint(e)))
		}
	}()
	w, err := gmars.ParseLoadFile(strings.NewReader(text), cfg)
	if err != nil {
		return fmt.Sprintf(`{"err":1,"msg":%s}`, jq(err.Error()))
	}
	code := make([]ins, len(w.Code))
	for i := range w.Code {
		code[i] = fromG(w.Code[i])
	}
	return fmt.Sprintf(`{"err":0,"code":%s,"start":%d,"name":%s,"author":%s,"strategy":%s}`, insListJSON(code), w.Start, jq(w.Name), jq(w.Author), jq(w.Strategy))
}

func cfgFor(dialect, m int) gmars.SimulatorConfig {
	mode := gmars.ICWS94
	if dialect == 88 {
		mode = gmars.ICWS88
	} else if m%2 == 1 {
		mode = gmars.NOP94 // the third simulator mode is a '94 dialect too
	}
	l := 100
	if l > m {
		l = m
	}
	return gmars.SimulatorConfig{Mode: mode, CoreSize: gmars.Address(m), Processes: 8000, Cycles: 80000, ReadLimit: gmars.Address(m), WriteLimit: gmars.Address(m),
		Length: gmars.Address(l), Distance: 0}
}

// warrior with instruction forms steered towards the dialect (TLC decides legality with Legal88)
func genLoadWarrior(r *rand.Rand, dialect, m, n int, forms *int) []ins {
	code := make([]ins, n)
	for k := range code {
		var i ins
		if dialect == 94 {
			i = formOf(*forms % 7616)
			*forms++
		} else {
			ops := []int{0, 1, 2, 3, 11, 12, 13, 14, 7, 10, 15}
			i.Op = ops[r.Intn(len(ops))]
			m88 := []int{0, 1, 3, 5}
			pick := func(allowed []int) int { return allowed[r.Intn(len(allowed))] }
			switch {
			case i.Op == 0:
				i.Am, i.Bm = pick([]int{1, 5}), pick([]int{1, 5})
			case i.Op == 1 || i.Op == 2 || i.Op == 3 || i.Op == 7 || i.Op == 10:
				i.Am, i.Bm = pick(m88), pick([]int{0, 3, 5})
			default:
				i.Am, i.Bm = pick([]int{0, 3, 5}), pick(m88)
			}
			if r.Intn(12) == 0 {
				i.Am, i.Bm = pick(m88), pick(m88)
			}
			i.Mod = -1
		}
		i.A, i.B = genField(r, m), genField(r, m)
		code[k] = i
	}
	return code
}

func cmdLoadRT(args []string) {
	fs := flag.NewFlagSet("loadrt", flag.ExitOnError)
	out := fs.String("out", "rt", "output prefix")
	shards := fs.Int("shards", 8, "shards")
	seed := fs.Int64("seed", 1, "seed")
	n := fs.Int("n", 2000, "warriors")
	fs.Parse(args)
	r := rand.New(rand.NewSource(*seed))
	w := newShardWriter(*out, *shards)
	forms := r.Intn(7616)
	warriors, texts, perturbed := 0, 0, map[string]int{}
	for k := 0; k < *n; k++ {
		dialect := 94
		if k%3 == 2 {
			dialect = 88
		}
		m := []int{3, 80, 8000, 8192}[r.Intn(4)]
		maxn := 12
		if m < maxn {
			maxn = m
		}
		nn := 1 + r.Intn(maxn)
		code := genLoadWarrior(r, dialect, m, nn, &forms)
		start := r.Intn(nn)
		cfg := cfgFor(dialect, m)
		var res, txts []string
		for v := 0; v < 4; v++ {
			t := printLoadFile(code, start, dialect, m, r, v == 1)
			if v >= 2 {
				var ap []string
				t, ap = perturb(r, t)
				for _, a := range ap {
					perturbed[a]++
				}
			}
			txts = append(txts, t)
			res = append(res, fmt.Sprintf(`{"by":"loader","r":%s}`, loadResult(t, cfg)), fmt.Sprintf(`{"by":"assembler","r":%s}`, compileResult(t, cfg)))
			texts++
		}
		w.line(fmt.Sprintf(`{"ev":"rt","dialect":%d,"M":%d,"w":{"code":%s,"start":%d},"res":[%s],"texts":%s}`, dialect, m, insListJSON(code), start, strings.Join(res, ","), strsJSON(txts)))
		w.nextUnit()
		warriors++
	}
	w.close()
	fmt.Printf(`{"warriors":%d,"texts":%d,"case":%d,"blanks":%d,"comments":%d,"crlf":%d,"nofinalnewline":%d}`+"\n", warriors, texts,
		perturbed["case"], perturbed["blanks"], perturbed["comments"], perturbed["crlf"], perturbed["nofinalnewline"])
}

func cmdRTReplay(args []string) {
	fs := flag.NewFlagSet("rt-replay", flag.ExitOnError)
	in := fs.String("in", "", "ndjson")
	out := fs.String("out", "", "prefix")
	fs.Parse(args)
	w := newShardWriter(*out, 1)
	for _, e := range readNDJSON(*in) {
		switch e["ev"] {
		case "rt":
			dialect, m := jint(e["dialect"]), jint(e["M"])
			cfg := cfgFor(dialect, m)
			var res []string
			txts := jstrs(e["texts"])
			for _, t := range txts {
				res = append(res, fmt.Sprintf(`{"by":"loader","r":%s}`, loadResult(t, cfg)), fmt.Sprintf(`{"by":"assembler","r":%s}`, compileResult(t, cfg)))
			}
			w.line(fmt.Sprintf(`{"ev":"rt","dialect":%d,"M":%d,"w":%s,"res":[%s],"texts":%s}`, dialect, m, mustJSON(e["w"]), strings.Join(res, ","), strsJSON(txts)))
		case "load":
			w.line(loadEvent(jstr(e["text"]), jint(e["dialect"]), jint(e["M"])))
		case "listing":
			w.line(listingEvent(jinsList(e["w"].(map[string]interface{})["code"]), jint(e["w"].(map[string]interface{})["start"]), jint(e["dialect"]), jint(e["M"]), jstr(e["via"])))
		}
	}
	w.close()
	fmt.Println(`{"replayed":1}`)
}

// ---------------------------------------------------------------- C10: corrupted load files

// generic tokenizer: what a "line" and its "fields" are, independent of the reader under test
func lineStructure(text string) string {
	var sb strings.Builder
	sb.WriteByte('[')
	segs := strings.Split(text, "\n")
	if len(segs) > 0 && segs[len(segs)-1] == "" {
		segs = segs[:len(segs)-1] // the text ended with a newline
	}
	for i, l := range segs {
		if i > 0 {
			sb.WriteByte(',')
		}
		body := l
		if k := strings.Index(body, ";"); k >= 0 {
			body = body[:k]
		}
		hasComma := strings.Contains(body, ",")
		f := strings.Fields(strings.ReplaceAll(body, ",", " "))
		for j := range f {
			f[j] = strings.ToLower(f[j])
		}
		hc := 0
		if hasComma {
			hc = 1
		}
		fmt.Fprintf(&sb, `{"f":%s,"comma":%d}`, strsJSON(f), hc)
	}
	sb.WriteByte(']')
	return sb.String()
}

func loadEvent(text string, dialect, m int) string {
	return fmt.Sprintf(`{"ev":"load","dialect":%d,"M":%d,"text":%s,"lines":%s,"res":%s}`, dialect, m, jq(text), lineStructure(text), loadResult(text, cfgFor(dialect, m)))
}

func cmdLoadCorrupt(args []string) {
	fs := flag.NewFlagSet("loadcorrupt", flag.ExitOnError)
	out := fs.String("out", "lc", "output prefix")
	shards := fs.Int("shards", 8, "shards")
	seed := fs.Int64("seed", 1, "seed")
	n := fs.Int("n", 3000, "texts")
	fs.Parse(args)
	r := rand.New(rand.NewSource(*seed))
	w := newShardWriter(*out, *shards)
	forms := r.Intn(7616)
	total, accepted, trunc := 0, 0, 0
	emit := func(t string, d, m int) {
		l := loadEvent(t, d, m)
		if strings.Contains(l, `"res":{"err":0`) {
			accepted++
		}
		total++
		w.line(l)
		w.nextUnit()
	}
	for k := 0; k < *n; k++ {
		dialect := 94
		if r.Intn(2) == 0 {
			dialect = 88
		}
		m := []int{3, 80, 8000}[r.Intn(3)]
		nn := 1 + r.Intn(5)
		if nn > m {
			nn = m
		}
		code := genLoadWarrior(r, dialect, m, nn, &forms)
		base := printLoadFile(code, r.Intn(nn), dialect, m, r, false)
		if r.Intn(2) == 0 {
			// metadata comments as a real load file carries them (before, between and after the instructions)
			meta := []string{";redcode-94\n", ";name Test\n", ";author A. N. Other\n", ";strategy one\n;strategy\n", ";assert 1\n", ";strategy"}
			ls := strings.SplitAfter(base, "\n")
			pos := r.Intn(len(ls))
			base = strings.Join(ls[:pos], "") + meta[r.Intn(len(meta)-1)] + strings.Join(ls[pos:], "")
			if r.Intn(3) == 0 {
				base += meta[r.Intn(len(meta))]
			}
		}
		if k%8 == 0 {
			// truncation at every byte offset of one canonical file
			for c := 0; c <= len(base); c++ {
				emit(base[:c], dialect, m)
				trunc++
			}
			continue
		}
		lines := strings.Split(strings.TrimSuffix(base, "\n"), "\n")
		li := r.Intn(len(lines))
		f := strings.Fields(lines[li])
		switch r.Intn(13) {
		case 0: // delete a field (one time in four: all of them, which leaves the comma alone on the line)
			if len(f) > 0 && r.Intn(4) == 0 {
				lines[li] = []string{",", " , ", ",,", "\t,\t; nothing left"}[r.Intn(4)]
				break
			}
			if len(f) > 0 {
				j := r.Intn(len(f))
				f = append(f[:j:j], f[j+1:]...)
			}
			lines[li] = strings.Join(f, " ")
		case 1: // duplicate a field
			if len(f) > 0 {
				j := r.Intn(len(f))
				f = append(f[:j+1:j+1], f[j:]...)
			}
			lines[li] = strings.Join(f, " ")
		case 2: // transpose fields
			if len(f) > 1 {
				i, j := r.Intn(len(f)), r.Intn(len(f))
				f[i], f[j] = f[j], f[i]
			}
			lines[li] = strings.Join(f, " ")
		case 3: // out-of-range and negative numbers
			vals := []string{fmt.Sprint(-m - 1), fmt.Sprint(-m), fmt.Sprint(m), fmt.Sprint(m + 1), fmt.Sprint(-3*m - 2), "2147483647", "-2147483648", "99999999999", "-1", "1e3", "0x10", "+5", "--1"}
			for j := range f {
				if _, err := strconv.Atoi(strings.TrimSuffix(f[j], ",")); err == nil && r.Intn(2) == 0 {
					c := ""
					if strings.HasSuffix(f[j], ",") {
						c = ","
					}
					f[j] = vals[r.Intn(len(vals))] + c
				}
			}
			lines[li] = strings.Join(f, " ")
		case 4: // unknown mnemonics / '94 forms in '88
			mn := []string{"FOO", "MOVE", "MOV.Q", "MOV.", ".I", "MUL.F", "SEQ.I", "NOP.B", "DAT.F", "MOV.I", "JMP", "LDP.A", "mov.i.i", "ORG", "END", "EQU"}
			if len(f) > 0 {
				f[0] = mn[r.Intn(len(mn))]
			}
			lines[li] = strings.Join(f, " ")
		case 5: // modes
			for j := range f {
				if len(f[j]) == 1 && strings.ContainsAny(f[j], "$#@<>*{}") && r.Intn(2) == 0 {
					f[j] = string("$#@<>*{}%&x"[r.Intn(11)])
				}
			}
			lines[li] = strings.Join(f, " ")
		case 6: // directives in odd places
			d := []string{"ORG 0", "ORG 1", "ORG -1", "ORG 99", "END", "END 0", "END 1", "END -1", "END 99", "ORG", "END 1 2", "ORG 1 2", "ORG START", "org 0", "end"}
			pos := r.Intn(len(lines) + 1)
			lines = append(lines[:pos:pos], append([]string{d[r.Intn(len(d))]}, lines[pos:]...)...)
		case 7: // drop the comma
			lines[li] = strings.Replace(lines[li], ",", " ", 1)
		case 8: // join two lines / split a line
			if li+1 < len(lines) && r.Intn(2) == 0 {
				lines[li] = lines[li] + " " + lines[li+1]
				lines = append(lines[:li+1], lines[li+2:]...)
			} else if len(f) > 2 {
				j := 1 + r.Intn(len(f)-1)
				lines[li] = strings.Join(f[:j], " ") + "\n" + strings.Join(f[j:], " ")
			}
		case 9: // garbage line
			g := []string{"hello world", "1 2 3 4 5", ", , , , ,", "MOV.I $ 0 $ 1 2", "\x00", "MOV.I $ 0, $", "#", "DAT", ";", " ; x", "\t"}
			pos := r.Intn(len(lines) + 1)
			lines = append(lines[:pos:pos], append([]string{g[r.Intn(len(g))]}, lines[pos:]...)...)
		case 11: // a very long comment or strategy line in front of the rest
			long := strings.Repeat("x", 70000)
			pos := r.Intn(len(lines) + 1)
			lines = append(lines[:pos:pos], append([]string{[]string{"; ", ";strategy ", ";name "}[r.Intn(3)] + long}, lines[pos:]...)...)
		case 10: // unterminated last line
			emit(strings.Join(lines, "\n"), dialect, m)
			continue
		default: // dialect mismatch
			dialect = 182 - dialect
		}
		emit(strings.Join(lines, "\n")+"\n", dialect, m)
	}
	w.close()
	fmt.Printf(`{"texts":%d,"accepted":%d,"truncations":%d}`+"\n", total, accepted, trunc)
}

// ---------------------------------------------------------------- C16: listings

func listingEvent(code []ins, start, dialect, m int, via string) string {
	cfg := cfgFor(dialect, m)
	if dialect == 94 && (m+start+len(code))%2 == 0 {
		cfg.Mode = gmars.NOP94 // the third simulator mode is a '94 dialect too
	}
	// the listing does not depend on the read/write limits of the simulator that prints it
	switch (m + 2*start + len(code)) % 4 {
	case 1:
		cfg.ReadLimit, cfg.WriteLimit = gmars.Address((m+1)/2), gmars.Address(m)
	case 2:
		cfg.ReadLimit, cfg.WriteLimit = 1, gmars.Address((m+2)/3)
	case 3:
		cfg.ReadLimit, cfg.WriteLimit = gmars.Address(m), 1
	}
	// the warrior must come from the assembler or the loader of the same dialect
	text := printLoadFile(code, start, dialect, m, nil, false)
	var wd gmars.WarriorData
	var err error
	if via == "loader" {
		wd, err = gmars.ParseLoadFile(strings.NewReader(text), cfg)
	} else {
		wd, err = gmars.CompileWarrior(strings.NewReader(text), cfg)
	}
	if err != nil {
		return fmt.Sprintf(`{"ev":"listing","dialect":%d,"M":%d,"via":%q,"w":{"code":%s,"start":%d},"produced":0,"msg":%s}`, dialect, m, via, insListJSON(code), start, jq(err.Error()))
	}
	got := make([]ins, len(wd.Code))
	for i := range wd.Code {
		got[i] = fromG(wd.Code[i])
	}
	listing, pan := "", ""
	func() {
		defer func() {
			if e := recover(); e != nil {
				pan = fmt.Sprint(e)
			}
		}()
		sim, _ := gmars.NewSimulator(cfg)
		w, _ := sim.AddWarrior(&wd)
		if (m+start)%3 == 0 {
			// the listing of a simulator that has been used and reset
			sim.SpawnWarrior(0, 0)
			sim.RunCycle()
			sim.Reset()
		}
		listing = w.LoadCode()
	}()
	// generic tokenization of the listing: lines -> fields split on blanks, commas and the '.' of OP.MOD
	var sb strings.Builder
	sb.WriteByte('[')
	first := true
	for _, l := range strings.Split(listing, "\n") {
		f := strings.Fields(strings.ReplaceAll(l, ",", " "))
		if len(f) == 0 {
			continue
		}
		var g []string
		for _, x := range f {
			if _, err := strconv.Atoi(x); err == nil {
				g = append(g, x) // an integer: emitted as a JSON number
			} else if k := strings.Index(x, "."); k > 0 {
				g = append(g, jq(x[:k]), jq(x[k+1:]))
			} else {
				g = append(g, jq(x))
			}
		}
		if !first {
			sb.WriteByte(',')
		}
		first = false
		sb.WriteString("[" + strings.Join(g, ",") + "]")
	}
	sb.WriteByte(']')
	return fmt.Sprintf(`{"ev":"listing","dialect":%d,"M":%d,"via":%q,"w":{"code":%s,"start":%d},"produced":1,"got":{"code":%s,"start":%d},"lines":%s,"panic":%s,"text":%s}`,
		dialect, m, via, insListJSON(code), start, insListJSON(got), wd.Start, sb.String(), jq(pan), jq(listing))
}

func cmdListing(args []string) {
	fs := flag.NewFlagSet("listing", flag.ExitOnError)
	out := fs.String("out", "ls", "output prefix")
	shards := fs.Int("shards", 8, "shards")
	seed := fs.Int64("seed", 1, "seed")
	n := fs.Int("n", 2000, "warriors")
	fs.Parse(args)
	r := rand.New(rand.NewSource(*seed))
	w := newShardWriter(*out, *shards)
	forms := r.Intn(7616)
	cnt, odd := 0, 0
	for k := 0; k < *n; k++ {
		dialect := 94
		if k%3 == 2 {
			dialect = 88
		}
		m := []int{3, 80, 8000, 8192, 7, 257, 8191, 55440}[r.Intn(8)]
		if m%2 == 1 {
			odd++
		}
		nn := 1 + r.Intn(8)
		if nn > m {
			nn = m
		}
		code := genLoadWarrior(r, dialect, m, nn, &forms)
		// fields across [0,M) including M/2 and M/2+1
		for i := range code {
			if r.Intn(3) == 0 {
				code[i].A = []int{0, 1, m / 2, (m/2 + 1) % m, m - 1, (m + 1) / 2}[r.Intn(6)] % m
				code[i].B = []int{0, 1, m / 2, (m/2 + 1) % m, m - 1, (m + 1) / 2}[r.Intn(6)] % m
			}
			if r.Intn(6) == 0 && i > 0 {
				code[i] = code[i-1] // identical neighbouring instructions
			}
		}
		via := []string{"loader", "assembler"}[r.Intn(2)]
		if k%40 == 7 {
			// an empty warrior (a source of comments only; an empty load file under '88 rules)
			w.line(listingEvent(nil, 0, dialect, m, map[int]string{94: "assembler", 88: via}[dialect]))
			w.nextUnit()
		}
		w.line(listingEvent(code, r.Intn(nn), dialect, m, via))
		w.nextUnit()
		cnt++
	}
	w.close()
	fmt.Printf(`{"warriors":%d,"odd_core_sizes":%d}`+"\n", cnt, odd)
}

var _ = bytes.NewBuffer
var _ = exec.Command
var _ = filepath.Join
var _ = os.Getenv
