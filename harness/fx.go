package main

// "fx": replay TLC-generated FOR-expander cases (spec -> code, C05).  Each case is
//   {"in":[{"t":class,"v":..}..],"out":[..]}   printed by Pipeline.tla (invariant Emit).
// The input classes are turned into real tokens, run through the REAL ForExpand (verif accessor),
// the output classes must equal the spec's, and no expander/lexer goroutine may survive the call.

import (
	"flag"
	"fmt"
	"runtime"
	"strings"
	"time"

	"github.com/bobertlo/gmars"
)

func classToToken(t string, v interface{}) gmars.VerifToken {
	switch t {
	case "lbl":
		return gmars.VerifToken{Typ: gmars.VerifTokText, Val: v.(string)}
	case "for":
		return gmars.VerifToken{Typ: gmars.VerifTokText, Val: "for"}
	case "rof":
		return gmars.VerifToken{Typ: gmars.VerifTokText, Val: "rof"}
	case "op":
		return gmars.VerifToken{Typ: gmars.VerifTokText, Val: "mov"}
	case "pseudo":
		return gmars.VerifToken{Typ: gmars.VerifTokText, Val: "org"}
	case "nl":
		return gmars.VerifToken{Typ: gmars.VerifTokNewline}
	case "cmt":
		return gmars.VerifToken{Typ: gmars.VerifTokComment, Val: ";c"}
	case "colon":
		return gmars.VerifToken{Typ: gmars.VerifTokColon, Val: ":"}
	case "num":
		return gmars.VerifToken{Typ: gmars.VerifTokNumber, Val: fmt.Sprint(jint(v))}
	case "err":
		return gmars.VerifToken{Typ: gmars.VerifTokError, Val: "lexer error"}
	case "eof":
		return gmars.VerifToken{Typ: gmars.VerifTokEOF}
	}
	fatal("unknown token class %q", t)
	return gmars.VerifToken{}
}

// class of a real output token, as "t:v"
func tokenClass(t gmars.VerifToken) string {
	switch t.Typ {
	case gmars.VerifTokText:
		switch {
		case t.Val == "for" || t.Val == "rof":
			return t.Val + ":0"
		case t.Val == "mov":
			return "op:0"
		case t.Val == "org":
			return "pseudo:0"
		case strings.HasPrefix(t.Val, "__for_anon_"):
			return "lbl:anon" // the counter name the expander gives a nested block that has none
		default:
			return "lbl:" + t.Val
		}
	case gmars.VerifTokNewline:
		return "nl:0"
	case gmars.VerifTokComment:
		return "cmt:0"
	case gmars.VerifTokColon:
		return "colon:0"
	case gmars.VerifTokNumber:
		return "num:" + t.Val
	case gmars.VerifTokError:
		return "err"
	case gmars.VerifTokEOF:
		return "eof"
	}
	return fmt.Sprintf("?%d:%s", t.Typ, t.Val)
}

func specClass(m map[string]interface{}) string {
	t := m["t"].(string)
	switch t {
	case "err", "eof":
		return t
	case "lbl":
		return "lbl:" + m["v"].(string)
	}
	return fmt.Sprintf("%s:%d", t, jint(m["v"]))
}

// producers of gmars still alive (by stack frame)
func survivors() (n int, frame string) {
	buf := make([]byte, 1<<20)
	for {
		k := runtime.Stack(buf, true)
		if k < len(buf) {
			buf = buf[:k]
			break
		}
		buf = make([]byte, 2*len(buf))
	}
	for _, g := range strings.Split(string(buf), "\n\n") {
		if strings.Contains(g, "(*forExpander).run") {
			n++
			frame = "(*forExpander).run"
		} else if strings.Contains(g, "(*lexer).run") {
			n++
			frame = "(*lexer).run"
		}
	}
	return
}

func settled() (int, string) {
	var n int
	var f string
	for i := 0; i < 60; i++ {
		n, f = survivors()
		if n == 0 {
			return 0, ""
		}
		runtime.Gosched()
		time.Sleep(time.Duration(i) * time.Millisecond)
	}
	return n, f
}

type fxResult struct {
	out     []string
	pan     string
	hung    bool
	leak    int
	frame   string
	elapsed time.Duration
}

func runFX(in []gmars.VerifToken) fxResult {
	base := runtime.NumGoroutine()
	type r struct {
		out []gmars.VerifToken
		pan string
	}
	ch := make(chan r, 1)
	t0 := time.Now()
	go func() {
		x := r{}
		defer func() {
			if e := recover(); e != nil {
				x.pan = fmt.Sprint(e)
			}
			ch <- x
		}()
		x.out, _ = gmars.VerifForExpand(in, map[string][]gmars.VerifToken{})
	}()
	res := fxResult{}
	select {
	case x := <-ch:
		res.pan = x.pan
		for _, t := range x.out {
			res.out = append(res.out, tokenClass(t))
		}
	case <-time.After(20 * time.Second):
		res.hung = true
		return res
	}
	res.elapsed = time.Since(t0)
	// cheap check first, detailed only when goroutines are left over
	for i := 0; i < 200 && runtime.NumGoroutine() > base; i++ {
		runtime.Gosched()
	}
	if runtime.NumGoroutine() > base {
		res.leak, res.frame = settled()
	}
	return res
}

func cmdFX(args []string) {
	fs := flag.NewFlagSet("fx", flag.ExitOnError)
	in := fs.String("in", "", "ndjson with TLC cases")
	out := fs.String("out", "", "output prefix (mismatches)")
	fs.Parse(args)
	cases := readNDJSON(*in)
	w := newShardWriter(*out, 1)
	n, bad, div, hung, withFor, expanded := 0, 0, 0, 0, 0, 0
	for _, c := range cases {
		var toks []gmars.VerifToken
		hasFor := false
		for _, x := range c["in"].([]interface{}) {
			m := x.(map[string]interface{})
			toks = append(toks, classToToken(m["t"].(string), m["v"]))
			if m["t"] == "for" {
				hasFor = true
			}
		}
		var want []string
		for _, x := range c["out"].([]interface{}) {
			want = append(want, specClass(x.(map[string]interface{})))
		}
		if hasFor {
			withFor++
		}
		r := runFX(toks)
		n++
		// what the property (C05) requires of this call: it returns, does not panic, leaves no goroutine behind, and hands
		// the consumer a well-terminated stream.  An output that differs from the model's but meets all that is a divergence
		// between model and code, recorded but not a violation.
		prop := r.hung || r.pan != "" || r.leak != 0 || !shapeOK(r.out)
		same := strings.Join(r.out, " ") == strings.Join(want, " ")
		if len(want) > len(toks) {
			expanded++
		}
		if prop || !same {
			kind := "divergence"
			if prop {
				kind = "property"
				bad++
			} else {
				div++
			}
			hv := 0
			if r.hung {
				hv = 1
				hung++
			}
			if prop || div <= 25 {
				w.line(fmt.Sprintf(`{"kind":%q,"in":%s,"want":%s,"got":%s,"panic":%s,"hung":%d,"leak":%d,"frame":%s}`, kind, mustJSON(c["in"]), strsJSON(want), strsJSON(r.out), jq(r.pan), hv, r.leak, jq(r.frame)))
			}
			if hung > 4 || bad >= 25 {
				break // enough evidence; every further leaking case costs a settle loop
			}
		}
	}
	w.close()
	fmt.Printf(`{"cases":%d,"mismatches":%d,"divergences":%d,"hung":%d,"with_for":%d,"output_longer_than_input":%d}`+"\n", n, bad, div, hung, withFor, expanded)
}
