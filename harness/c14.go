package main

// C14: isolation, repeatability, concurrent use.
//  "alias": the caller mutates its WarriorData after AddWarrior (and at later points); the recorded
//           trace carries the ORIGINAL data, so TLC rejects it if the mutation shows through.
//  "jobs" : a deterministic job set (assemble text under cfg; battles from SHARED WarriorData) run
//           forwards, backwards or on N goroutines; one line per job with its result.

import (
	"flag"
	"fmt"
	"math/rand"
	"os"
	"path/filepath"
	"sort"
	"strings"
	"sync"

	"github.com/bobertlo/gmars"
)

func cmdAlias(args []string) {
	fs := flag.NewFlagSet("alias", flag.ExitOnError)
	out := fs.String("out", "alias", "output prefix")
	shards := fs.Int("shards", 8, "shards")
	seed := fs.Int64("seed", 1, "seed")
	n := fs.Int("n", 500, "number of histories")
	fs.Parse(args)
	r := rand.New(rand.NewSource(*seed))
	w := newShardWriter(*out, *shards)
	muts, hist := 0, 0
	ms := []int{3, 4, 5, 8, 13, 16}
	for k := 0; k < *n; k++ {
		cfg := genCfg(r, ms)
		b, _ := newBattle(cfg, false)
		if b == nil {
			continue
		}
		w.line(fmt.Sprintf(`{"ev":"new","M":%d,"P":%d,"C":%d,"RL":%d,"WL":%d,"ok":1,"msg":""}`, cfg.M, cfg.P, cfg.C, cfg.RL, cfg.WL))
		nw := 1 + r.Intn(3)
		var orig []wdata
		var caller []*gmars.WarriorData
		mutate := func() {
			// the caller scribbles over its own data
			d := caller[r.Intn(len(caller))]
			switch r.Intn(4) {
			case 3:
				// the caller extends its own program (writes into its slice's spare capacity, if any) and cuts it back
				n := len(d.Code)
				for k := 0; k < n+2; k++ {
					d.Code = append(d.Code, genIns(r, cfg.M).g())
				}
				d.Code = d.Code[:n]
			case 0:
				d.Code[r.Intn(len(d.Code))] = genIns(r, cfg.M).g()
			case 1:
				d.Start = r.Intn(len(d.Code))
			default:
				for i := range d.Code {
					d.Code[i] = gmars.Instruction{}
				}
			}
			muts++
		}
		for i := 0; i < nw; i++ {
			wd := genWarrior(r, cfg.M, r.Intn(2) == 0)
			orig = append(orig, wd)
			g := wd.g()
			if r.Intn(2) == 0 {
				// the caller built its program in a slice with room to spare
				roomy := make([]gmars.Instruction, len(g.Code), 4*len(g.Code)+4)
				copy(roomy, g.Code)
				g.Code = roomy
			}
			caller = append(caller, g)
			wr, _ := b.sim.AddWarrior(g)
			b.ws = append(b.ws, wr)
			w.line(fmt.Sprintf(`{"ev":"add","code":%s,"start":%d}`, insListJSON(wd.code), wd.start))
			if r.Intn(2) == 0 {
				mutate()
			}
		}
		offs := make([]int, nw)
		for i := 0; i < nw; i++ {
			offs[i] = r.Intn(cfg.M)
			w.line(b.spawn(i, offs[i]))
			if r.Intn(3) == 0 {
				mutate()
			}
		}
		for c := 0; c < 12 && b.inProgress(); c++ {
			l, _, _ := b.cycle()
			w.line(l)
			if r.Intn(4) == 0 {
				mutate()
			}
		}
		// reset and re-spawn: the simulator must still use its own (original) copies
		w.line(b.reset())
		mutate()
		for i := 0; i < nw; i++ {
			w.line(b.spawn(i, offs[i]))
		}
		for c := 0; c < 6 && b.inProgress(); c++ {
			l, _, _ := b.cycle()
			w.line(l)
		}
		// the other direction: a battle never changes the caller's data.  A second caller copy that is
		// never mutated by the harness is added to a fresh simulator, fought over, and compared.
		b2, _ := newBattle(cfg, false)
		keep := orig[0].g()
		b2.sim.AddWarrior(keep)
		b2.sim.AddWarrior(wdata{[]ins{{Op: 1, Mod: 6, Am: 0, A: 0, Bm: 0, B: 1}}, 0}.g())
		b2.sim.SpawnWarrior(0, 0)
		b2.sim.SpawnWarrior(1, gmars.Address(r.Intn(cfg.M)))
		b2.sim.Run()
		after := make([]ins, len(keep.Code))
		for i := range keep.Code {
			after[i] = fromG(keep.Code[i])
		}
		w.line(fmt.Sprintf(`{"ev":"caller","orig":%s,"origstart":%d,"after":%s,"afterstart":%d}`, insListJSON(orig[0].code), orig[0].start, insListJSON(after), keep.Start))
		hist++
		w.nextUnit()
	}
	w.close()
	fmt.Printf(`{"histories":%d,"mutations":%d}`+"\n", hist, muts)
}

type job struct {
	id   int
	kind string // "asm" | "battle"
	text string
	cfg  gmars.SimulatorConfig
	// battle jobs: indices into the shared warrior data, offsets
	ws   []int
	offs []int
	bcfg simCfg
}

var jobTexts = []string{
	"mov 0, 1\n",
	"x equ MAXPROCESSES\ny equ MINDISTANCE\ndat #x, #y\nadd #CORESIZE-1, MAXLENGTH\n",
	"step equ 4\nstart add #step, bomb\n mov bomb, @bomb\n jmp start\nbomb dat #0, #0\nend start\n",
	"a equ b+1\nb equ c*2\nc equ 3\n dat a, b\n dat c, a-b\n",
	"i for 3\n dat i, MAXPROCESSES-i\nrof\n spl 0, <-MINDISTANCE\n",
	";name t\n;author h\n;assert CORESIZE > 1\norg 1\n nop 0\n jmp -1, {MAXPROCESSES\n",
	"for 2\nj for 2\n dat j, MINDISTANCE\nrof\nrof\n",
	"dat 1/0\n",
	"x equ y\ny equ x\ndat x\n",
	// EQU names defined through several others, used as FOR counts (the order in which the assembler resolves them must not matter)
	"step equ 2\nrows equ 3\ncells equ rows*step\npad equ cells+rows-step\ni for pad\ndat #i, #cells\nrof\nend\n",
	"a equ 1\nb equ a+1\nc equ a+b\nd equ a+b+c\nk for d-c\n dat k, d\nrof\n",
	"p equ 2\nq equ p+1\nr equ q+p\ns equ r+q+p\nfor s%4\n nop p, s\nrof\n jmp r-q, <s\n",
	";assert 0\ndat 0\n",
	";assert CORESIZE-CORESIZE\nmov 0, 1\n",
	";assert MAXPROCESSES > 100000\nmov 0, 1\n",
}

func buildJobs(seed int64, n int, repoWarriors string) ([]job, []*gmars.WarriorData, []wdata) {
	r := rand.New(rand.NewSource(seed))
	texts := append([]string{}, jobTexts...)
	files, _ := filepath.Glob(filepath.Join(repoWarriors, "94", "*.red"))
	sort.Strings(files)
	for _, f := range files {
		if b, err := os.ReadFile(f); err == nil {
			texts = append(texts, string(b))
		}
	}
	// configurations that share CoreSize and Length but differ in Processes and Distance
	var cfgs []gmars.SimulatorConfig
	for _, cs := range []int{80, 800, 8000} {
		for _, p := range []int{7, 60, 8000} {
			for _, d := range []int{5, 11} {
				l := 20
				cfgs = append(cfgs, gmars.SimulatorConfig{Mode: gmars.ICWS94, CoreSize: gmars.Address(cs), Processes: gmars.Address(p), Cycles: 100,
					ReadLimit: gmars.Address(cs), WriteLimit: gmars.Address(cs), Length: gmars.Address(l), Distance: gmars.Address(d)})
			}
		}
	}
	// shared warrior data for the battle jobs: fields valid for a 64-cell core; the same data is also
	// added to 16-cell simulators (where only the caller's copy is checked afterwards)
	m := 64
	var shared []*gmars.WarriorData
	var sharedW []wdata
	for i := 0; i < 6; i++ {
		wd := genWarrior(r, m, i%2 == 0)
		sharedW = append(sharedW, wd)
		shared = append(shared, wd.g())
	}
	var jobs []job
	for k := 0; k < n; k++ {
		if k%3 != 2 {
			jobs = append(jobs, job{id: k, kind: "asm", text: texts[r.Intn(len(texts))], cfg: cfgs[r.Intn(len(cfgs))]})
		} else {
			rl, wl := genLimits(r, m)
			j := job{id: k, kind: "battle", bcfg: simCfg{M: m, P: 1 + r.Intn(4), C: 1 + r.Intn(30), RL: rl, WL: wl}}
			if r.Intn(4) == 0 {
				j.kind = "smallcore"
				j.bcfg = simCfg{M: 16, P: 2, C: 10, RL: 16, WL: 16}
			} else if k%40 == 5 {
				// a core larger than every preset, reused over several rounds
				j.bcfg = simCfg{M: 9000, P: 3, C: 12, RL: 9000, WL: 9000}
			}
			nw := 1 + r.Intn(3)
			for i := 0; i < nw; i++ {
				j.ws = append(j.ws, r.Intn(len(shared)))
				j.offs = append(j.offs, r.Intn(m))
			}
			if j.bcfg.M == 9000 {
				for i := range j.offs {
					j.offs[i] = 8990 - 70*i // near the top of the big core
				}
			}
			jobs = append(jobs, j)
		}
	}
	return jobs, shared, sharedW
}

func runJob(j job, shared []*gmars.WarriorData, sharedW []wdata) []string {
	if j.kind == "asm" {
		// the same text is assembled twice; the caller scribbles over the first result in between (it owns it), which
		// must not show in the second: both results go into the comparison of this job
		var lines []string
		for k := 0; k < 2; k++ {
			res := assembleResult(j.text, j.cfg)
			lines = append(lines, fmt.Sprintf(`{"ev":"job","id":%d,"kind":"asm","M":%d,"P":%d,"D":%d,"res":%s}`, j.id, int(j.cfg.CoreSize), int(j.cfg.Processes), int(j.cfg.Distance), res))
		}
		return lines
	}
	if j.kind == "smallcore" {
		// shared data built for a larger core in a small simulator: run it, record nothing but completion
		func() {
			defer func() { recover() }()
			sim, err := gmars.NewSimulator(j.bcfg.g())
			if err != nil {
				return
			}
			for i, k := range j.ws {
				sim.AddWarrior(shared[k])
				sim.SpawnWarrior(i, gmars.Address(j.offs[i]))
			}
			sim.Run()
		}()
		return []string{fmt.Sprintf(`{"ev":"job","id":%d,"kind":"smallcore","res":{}}`, j.id)}
	}
	// battle from SHARED data: stepped and recorded like any battle
	var lines []string
	b, _ := newBattle(j.bcfg, false)
	lines = append(lines, fmt.Sprintf(`{"ev":"new","M":%d,"P":%d,"C":%d,"RL":%d,"WL":%d,"ok":1,"msg":"","job":%d}`, j.bcfg.M, j.bcfg.P, j.bcfg.C, j.bcfg.RL, j.bcfg.WL, j.id))
	for _, k := range j.ws {
		wr, _ := b.sim.AddWarrior(shared[k])
		b.ws = append(b.ws, wr)
		lines = append(lines, fmt.Sprintf(`{"ev":"add","code":%s,"start":%d}`, insListJSON(sharedW[k].code), sharedW[k].start))
	}
	for i := range j.ws {
		lines = append(lines, b.spawn(i, j.offs[i]))
	}
	for b.inProgress() {
		l, _, pan := b.cycle()
		lines = append(lines, l)
		if pan != "" {
			break
		}
	}
	// further rounds on the same simulator, the way a tournament or the visual front-end reuses it:
	// Reset (sometimes twice, sometimes with a partial respawn in between), respawn, run again
	for round := 0; round < j.id%3; round++ {
		lines = append(lines, b.reset())
		if (j.id+round)%2 == 0 {
			if (j.id+round)%4 == 0 {
				lines = append(lines, b.spawn(0, j.offs[0]))
			}
			lines = append(lines, b.reset())
		}
		for i := range j.ws {
			lines = append(lines, b.spawn(i, j.offs[i]))
		}
		for c := 0; c < 40 && b.inProgress(); c++ {
			l, _, pan := b.cycle()
			lines = append(lines, l)
			if pan != "" {
				break
			}
		}
	}
	lines = append(lines, fmt.Sprintf(`{"ev":"job","id":%d,"kind":"battle","res":{%s,"core":%s}}`, j.id, b.obs(), insListJSON(b.core())))
	return lines
}

func assembleResult(text string, cfg gmars.SimulatorConfig) (res string) {
	defer func() {
		if e := recover(); e != nil {
			res = fmt.Sprintf(`{"err":2,"panic":%q}`, fmt.Sprint(e))
		}
	}()
	w, err := gmars.CompileWarrior(strings.NewReader(text), cfg)
	if err != nil {
		return `{"err":1}`
	}
	code := make([]ins, len(w.Code))
	for i := range w.Code {
		code[i] = fromG(w.Code[i])
	}
	res = fmt.Sprintf(`{"err":0,"code":%s,"start":%d,"name":%s,"author":%s}`, insListJSON(code), w.Start, jq(w.Name), jq(w.Author))
	// the result belongs to the caller, who now overwrites it
	for i := range w.Code {
		w.Code[i] = gmars.Instruction{Op: gmars.SPL, A: gmars.Address(i + 1), B: 7}
	}
	w.Code = append(w.Code, gmars.Instruction{Op: gmars.JMP})
	w.Start = len(w.Code) - 1
	w.Name, w.Author = "overwritten", "by the caller"
	return res
}

func cmdJobs(args []string) {
	fs := flag.NewFlagSet("jobs", flag.ExitOnError)
	out := fs.String("out", "jobs", "output prefix")
	seed := fs.Int64("seed", 1, "seed")
	n := fs.Int("n", 300, "number of jobs")
	order := fs.String("order", "fwd", "fwd | rev | par")
	threads := fs.Int("threads", 8, "goroutines for -order par")
	reps := fs.Int("reps", 1, "repeat the whole job set")
	repo := fs.String("warriors", "/repo/warriors", "repository warriors directory")
	fs.Parse(args)
	jobs, shared, sharedW := buildJobs(*seed, *n, *repo)
	results := make([][]string, len(jobs)**reps)
	idx := make([]int, 0, len(results))
	for rep := 0; rep < *reps; rep++ {
		for k := range jobs {
			idx = append(idx, rep*len(jobs)+k)
		}
	}
	switch *order {
	case "fwd":
		for _, x := range idx {
			results[x] = runJob(jobs[x%len(jobs)], shared, sharedW)
		}
	case "rev":
		for i := len(idx) - 1; i >= 0; i-- {
			x := idx[i]
			results[x] = runJob(jobs[x%len(jobs)], shared, sharedW)
		}
	default:
		var wg sync.WaitGroup
		ch := make(chan int)
		for t := 0; t < *threads; t++ {
			wg.Add(1)
			go func() {
				defer wg.Done()
				for x := range ch {
					results[x] = runJob(jobs[x%len(jobs)], shared, sharedW)
				}
			}()
		}
		for _, x := range idx {
			ch <- x
		}
		close(ch)
		wg.Wait()
	}
	// shared data must be untouched by everything above
	w := newShardWriter(*out, 1)
	for _, x := range idx {
		for _, l := range results[x] {
			w.line(l)
		}
	}
	for k := range shared {
		after := make([]ins, len(shared[k].Code))
		for i := range shared[k].Code {
			after[i] = fromG(shared[k].Code[i])
		}
		w.line(fmt.Sprintf(`{"ev":"caller","orig":%s,"origstart":%d,"after":%s,"afterstart":%d}`, insListJSON(sharedW[k].code), sharedW[k].start, insListJSON(after), shared[k].Start))
	}
	w.close()
	fmt.Printf(`{"jobs":%d,"order":%q,"threads":%d}`+"\n", len(idx), *order, *threads)
}
