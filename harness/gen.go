package main

import "math/rand"

// biased field values for a core of size m
func genField(r *rand.Rand, m int) int {
	switch r.Intn(12) {
	case 0, 1:
		return 0
	case 2:
		return 1 % m
	case 3:
		return m - 1
	case 4:
		return 2 % m
	case 5:
		return (m - 2 + m) % m
	case 6:
		return m / 2
	case 7:
		return (m/2 + 1) % m
	default:
		return r.Intn(m)
	}
}

func genIns(r *rand.Rand, m int) ins {
	return ins{r.Intn(17), r.Intn(7), r.Intn(8), genField(r, m), r.Intn(8), genField(r, m)}
}

// a neighbour cell: often blank-like, sometimes fully random
func genCell(r *rand.Rand, m int) ins {
	switch r.Intn(10) {
	case 0, 1:
		return ins{} // DAT.F $0,$0
	case 2:
		return ins{0, 0, 1, genField(r, m), 1, genField(r, m)} // DAT #a,#b
	default:
		return genIns(r, m)
	}
}

func genCore(r *rand.Rand, m int) []ins {
	c := make([]ins, m)
	for i := range c {
		c[i] = genCell(r, m)
	}
	// make some cells identical (for .I comparisons)
	if m > 1 && r.Intn(3) == 0 {
		c[r.Intn(m)] = c[r.Intn(m)]
	}
	return c
}

// limit pairs: classes named in DESIGN.md plus random
func genLimits(r *rand.Rand, m int) (int, int) {
	switch r.Intn(10) {
	case 0, 1, 2:
		return m, m
	case 3:
		return 1, 1
	case 4:
		return 1, m
	case 5:
		return m, 1
	case 6:
		return 1 + 1%m, 1 + 2%m // (2,3) when they fit
	default:
		return 1 + r.Intn(m), 1 + r.Intn(m)
	}
}

func formOf(k int) ins { // k in [0,7616)
	return ins{Op: k / 448, Mod: (k / 64) % 7, Am: (k / 8) % 8, Bm: k % 8}
}
