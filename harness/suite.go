package main

// "suite-convert": re-encodes the step lines written by the in-situ hook of RunCycle (gmars verif_trace.go, e.g. while
// the repository's own test suite runs with -tags verif and VERIF_STEP_TRACE set) into the integer tables of the trace
// specification (StepTrace.tla).  Nothing is computed or guessed here: only the numbering of opcodes, modifiers and
// addressing modes changes; "alive" is the emptiness of the logged queue.

import (
	"flag"
	"fmt"
	"strings"

	"github.com/bobertlo/gmars"
)

func rawIns(v interface{}) ins {
	t := v.([]interface{})
	return fromG(gmars.Instruction{Op: gmars.OpCode(jint(t[0])), OpMode: gmars.OpMode(jint(t[1])), AMode: gmars.AddressMode(jint(t[2])),
		A: gmars.Address(jint(t[3])), BMode: gmars.AddressMode(jint(t[4])), B: gmars.Address(jint(t[5]))})
}

func cmdSuiteConvert(args []string) {
	fs := flag.NewFlagSet("suite-convert", flag.ExitOnError)
	in := fs.String("in", "", "raw hook output")
	out := fs.String("out", "suite", "output prefix")
	shards := fs.Int("shards", 4, "number of shard files")
	fs.Parse(args)
	evs := readNDJSON(*in)
	w := newShardWriter(*out, *shards)
	n, skipped, sparse, withq, died, changed := 0, 0, 0, 0, 0, 0
	for _, e := range evs {
		if _, ok := e["skip"]; ok {
			skipped++
			continue
		}
		var sb strings.Builder
		sp := jint(e["sparse"])
		fmt.Fprintf(&sb, `{"M":%d,"RL":%d,"WL":%d,"P":%d,"w":%d,"pc":%d,"sparse":%d,"qpre":%s,"pre":[`, jint(e["M"]), jint(e["RL"]), jint(e["WL"]),
			jint(e["P"]), jint(e["w"]), jint(e["pc"]), sp, intsJSON(jints(e["qpre"])))
		for k, c := range e["pre"].([]interface{}) {
			if k > 0 {
				sb.WriteByte(',')
			}
			if sp == 1 {
				t := c.([]interface{})
				fmt.Fprintf(&sb, "[%d,%s]", jint(t[0]), rawIns(t[1]).json())
			} else {
				sb.WriteString(rawIns(c).json())
			}
		}
		sb.WriteString(`],"d":[`)
		d := e["d"].([]interface{})
		for k, c := range d {
			if k > 0 {
				sb.WriteByte(',')
			}
			t := c.([]interface{})
			fmt.Fprintf(&sb, "[%d,%s]", jint(t[0]), rawIns(t[1]).json())
		}
		q := jints(e["q"])
		al := 0
		if len(q) > 0 {
			al = 1
		}
		fmt.Fprintf(&sb, `],"q":%s,"alive":%d,"panic":""}`, intsJSON(q), al)
		w.line(sb.String())
		w.nextUnit()
		n++
		if sp == 1 {
			sparse++
		}
		if len(jints(e["qpre"])) > 0 {
			withq++
		}
		if al == 0 {
			died++
		}
		if len(d) > 0 {
			changed++
		}
	}
	w.close()
	fmt.Printf(`{"steps":%d,"simulators_cut_short":%d,"sparse":%d,"with_other_tasks_queued":%d,"warrior_died":%d,"core_changed":%d}`+"\n", n, skipped, sparse, withq, died, changed)
}
