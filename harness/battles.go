package main

// "battles": whole battles of the real simulator, recorded call by call.
// Events (one ndjson line each; a "new" event starts an independent trace):
//   {"ev":"new","M","P","C","RL","WL","ok":1|0,"panic":""}
//   {"ev":"add","code":[ins..],"start":n}
//   {"ev":"spawn","i","off","err":0|1,"panic":"", <post>, "rep":[[type,w,addr]..],"rec":[[state,owner]..]}
//   {"ev":"cycle","ret":n,"panic":"", <post>, "tasks":[{"w","pc","rep":[[type,addr]..],"chg":[addr..]}..],"other":[[type,w,addr]..],"rec":..}
//   {"ev":"runtwin","flags":[0|1..],"panic":"", <post of the twin>, "same":1|0}
//   {"ev":"reset", <post>, "rec":..}
//   {"ev":"rot","k":k,"j":j,"a":<full state>,"b":<full state>}
// <post> = "cycle","living","count","alive":[0|1..],"q":[[pc..]..],"d":[[addr,ins]..]  (d = core cells that differ
// from the previous event of the same trace).

import (
	"flag"
	"fmt"
	"math/rand"
	"os"
	"path/filepath"
	"sort"
	"strings"
	"time"

	"github.com/bobertlo/gmars"
)

type simCfg struct{ M, P, C, RL, WL int }

func (c simCfg) g() gmars.SimulatorConfig {
	// the simulator mode is irrelevant to execution (the specification has no such parameter); all three are used, as a
	// function of the recorded configuration so that replays build the same simulator
	return gmars.SimulatorConfig{Mode: gmars.SimulatorMode((c.M + c.P + c.C + c.RL + c.WL) % 3), CoreSize: gmars.Address(c.M), Processes: gmars.Address(c.P),
		Cycles: gmars.Address(c.C), ReadLimit: gmars.Address(c.RL), WriteLimit: gmars.Address(c.WL),
		Length: gmars.Address(c.M), Distance: 0}
}

type wdata struct {
	code  []ins
	start int
}

func (w wdata) g() *gmars.WarriorData {
	code := make([]gmars.Instruction, len(w.code))
	for i := range w.code {
		code[i] = w.code[i].g()
	}
	return &gmars.WarriorData{Name: "w", Author: "h", Code: code, Start: w.start}
}

// listener collects reports, groups them by task and snapshots the core at task boundaries
type listener struct {
	sim     gmars.Simulator
	m       int
	snap    bool
	last    []ins
	tasks   []taskRec
	other   [][3]int
	inTask  bool
	nReport int
}
type taskRec struct {
	w, pc int
	rep   [][2]int
	chg   []int
}

func (l *listener) core() []ins {
	c := make([]ins, l.m)
	for i := 0; i < l.m; i++ {
		c[i] = fromG(l.sim.GetMem(gmars.Address(i)))
	}
	return c
}

func (l *listener) closeTask() {
	if !l.inTask {
		return
	}
	if l.snap {
		now := l.core()
		t := &l.tasks[len(l.tasks)-1]
		for a := range now {
			if now[a] != l.last[a] {
				t.chg = append(t.chg, a)
			}
		}
		l.last = now
	}
	l.inTask = false
}

func (l *listener) begin() {
	l.tasks, l.other, l.inTask = nil, nil, false
	if l.snap {
		l.last = l.core()
	}
}

var repTable = []gmars.ReportType{gmars.SimReset, gmars.CycleStart, gmars.CycleEnd, gmars.WarriorSpawn, gmars.WarriorTaskPop,
	gmars.WarriorTaskPush, gmars.WarriorTaskTerminate, gmars.WarriorTerminate, gmars.WarriorRead, gmars.WarriorWrite,
	gmars.WarriorDecrement, gmars.WarriorIncrement}

func repIdx(t gmars.ReportType) int {
	for k, v := range repTable {
		if v == t {
			return k
		}
	}
	return 99
}

func (l *listener) Report(r gmars.Report) {
	l.nReport++
	switch r.Type {
	case gmars.WarriorTaskPop:
		l.closeTask()
		l.tasks = append(l.tasks, taskRec{w: r.WarriorIndex, pc: clampAddr(r.Address)})
		l.inTask = true
	case gmars.CycleStart, gmars.CycleEnd, gmars.SimReset, gmars.WarriorSpawn:
		l.closeTask()
		l.other = append(l.other, [3]int{repIdx(r.Type), r.WarriorIndex, clampAddr(r.Address)})
	default:
		if l.inTask && r.WarriorIndex == l.tasks[len(l.tasks)-1].w {
			t := &l.tasks[len(l.tasks)-1]
			t.rep = append(t.rep, [2]int{repIdx(r.Type), clampAddr(r.Address)})
		} else {
			l.other = append(l.other, [3]int{repIdx(r.Type), r.WarriorIndex, clampAddr(r.Address)})
		}
	}
}

func (l *listener) json() string {
	l.closeTask()
	var sb strings.Builder
	sb.WriteString(`"tasks":[`)
	for i, t := range l.tasks {
		if i > 0 {
			sb.WriteByte(',')
		}
		fmt.Fprintf(&sb, `{"w":%d,"pc":%d,"rep":[`, t.w, t.pc)
		for k, r := range t.rep {
			if k > 0 {
				sb.WriteByte(',')
			}
			fmt.Fprintf(&sb, "[%d,%d]", r[0], r[1])
		}
		fmt.Fprintf(&sb, `],"chg":%s}`, intsJSON(t.chg))
	}
	sb.WriteString(`],"other":[`)
	for k, r := range l.other {
		if k > 0 {
			sb.WriteByte(',')
		}
		fmt.Fprintf(&sb, "[%d,%d,%d]", r[0], r[1], r[2])
	}
	sb.WriteString("]")
	return sb.String()
}

// battle wraps one real simulator and its recording state
type battle struct {
	cfg     simCfg
	sim     gmars.ReportingSimulator
	ws      []gmars.Warrior
	prev    []ins
	lis     *listener
	rec     *gmars.StateRecorder
	full    bool // record whole-core diffs and recorder (small cores)
	hugeOff gmars.Address
}

func newBattle(c simCfg, withReports bool) (b *battle, errs string) {
	defer func() {
		if e := recover(); e != nil {
			b, errs = nil, "panic: "+fmt.Sprint(e)
		}
	}()
	sim, err := gmars.NewReportingSimulator(c.g())
	if err != nil {
		return nil, "error: " + err.Error()
	}
	b = &battle{cfg: c, sim: sim, full: true}
	b.prev = make([]ins, c.M)
	// the listener is always attached (executed PCs are part of every trace); per-task core snapshots and the
	// StateRecorder only when reports are being checked
	b.lis = &listener{sim: sim, m: c.M, snap: withReports}
	sim.AddReporter(b.lis)
	if withReports {
		b.rec = gmars.NewStateRecorder(sim)
		if recordReads {
			b.rec.SetRecordRead(true)
		}
		sim.AddReporter(b.rec)
	}
	return b, ""
}

// rounds2: recorded battles may be followed by a second round on the same simulator (Reset, respawn, fight)
var rounds2 = false

// recordReads: the bundled recorder is switched to also record read accesses (set by the battles command)
var recordReads = false

func (b *battle) core() []ins {
	c := make([]ins, b.cfg.M)
	for i := 0; i < b.cfg.M; i++ {
		c[i] = fromG(b.sim.GetMem(gmars.Address(i)))
	}
	return c
}

func diffJSON(prev, now []ins) string {
	var sb strings.Builder
	sb.WriteByte('[')
	first := true
	for a := range now {
		if now[a] != prev[a] {
			if !first {
				sb.WriteByte(',')
			}
			first = false
			fmt.Fprintf(&sb, "[%d,%s]", a, now[a].json())
		}
	}
	sb.WriteByte(']')
	return sb.String()
}

// post renders the observable state after a call (and advances the diff base)
func (b *battle) post() string {
	now := b.core()
	d := diffJSON(b.prev, now)
	b.prev = now
	return b.obs() + `,"d":` + d
}

func (b *battle) obs() string {
	var sb strings.Builder
	fmt.Fprintf(&sb, `"cycle":%d,"living":%d,"count":%d,"alive":[`, b.sim.CycleCount(), b.sim.WarriorLivingCount(), b.sim.WarriorCount())
	for i, w := range b.ws {
		if i > 0 {
			sb.WriteByte(',')
		}
		if w.Alive() {
			sb.WriteByte('1')
		} else {
			sb.WriteByte('0')
		}
	}
	sb.WriteString(`],"q":[`)
	for i, w := range b.ws {
		if i > 0 {
			sb.WriteByte(',')
		}
		sb.WriteString(intsJSON(addrsToInts(w.Queue())))
	}
	sb.WriteString("]")
	return sb.String()
}

func (b *battle) recJSON() string {
	if b.rec == nil {
		return ""
	}
	var sb strings.Builder
	sb.WriteString(`,"rec":[`)
	for a := 0; a < b.cfg.M; a++ {
		if a > 0 {
			sb.WriteByte(',')
		}
		s, o := b.rec.GetMemState(gmars.Address(a))
		fmt.Fprintf(&sb, "[%d,%d]", int(s), o)
	}
	sb.WriteString("]")
	return sb.String()
}

func (b *battle) repJSON() string {
	if b.lis == nil {
		return ""
	}
	return "," + b.lis.json()
}

func (b *battle) add(w wdata) string {
	wr, _ := b.sim.AddWarrior(w.g())
	b.ws = append(b.ws, wr)
	return fmt.Sprintf(`{"ev":"add","code":%s,"start":%d}`, insListJSON(w.code), w.start)
}

// spawnHuge spawns at the largest 64-bit offset congruent to off modulo the core size; the event records the
// reduced offset (the harness's own modular arithmetic) and marks it
func (b *battle) spawnHuge(i, off int) string {
	m := uint64(b.cfg.M)
	maxv := ^uint64(0)
	big := maxv - (maxv-uint64(off%b.cfg.M))%m
	b.hugeOff = gmars.Address(big)
	l := b.spawn(i, off%b.cfg.M)
	b.hugeOff = 0
	return l[:len(l)-1] + `,"offbig":1}`
}

func (b *battle) spawn(i, off int) (line string) {
	errv, pan := 0, ""
	if b.lis != nil {
		b.lis.begin()
	}
	func() {
		defer func() {
			if e := recover(); e != nil {
				pan = fmt.Sprint(e)
			}
		}()
		o := gmars.Address(off)
		if b.hugeOff != 0 {
			o = b.hugeOff
		}
		if err := b.sim.SpawnWarrior(i, o); err != nil {
			errv = 1
		}
	}()
	return fmt.Sprintf(`{"ev":"spawn","i":%d,"off":%d,"err":%d,"panic":%q,%s%s%s}`, i, off, errv, pan, b.safePost(), b.repJSON(), b.recJSON())
}

// run calls Run() under a watchdog and records the state afterwards
func (b *battle) run() string {
	type res struct {
		flags []bool
		pan   string
	}
	ch := make(chan res, 1)
	go func() {
		r := res{}
		defer func() {
			if e := recover(); e != nil {
				r.pan = fmt.Sprint(e)
			}
			ch <- r
		}()
		r.flags = b.sim.Run()
	}()
	select {
	case r := <-ch:
		nilv := 0
		if r.flags == nil {
			nilv = 1
		}
		fl := make([]int, len(r.flags))
		for i, f := range r.flags {
			if f {
				fl[i] = 1
			}
		}
		return fmt.Sprintf(`{"ev":"run","nil":%d,"flags":%s,"panic":%q,"timeout":0,%s}`, nilv, intsJSON(fl), r.pan, b.safePost())
	case <-time.After(20 * time.Second):
		return `{"ev":"run","nil":0,"flags":[],"panic":"","timeout":1,"cycle":-1,"living":-1,"count":-1,"alive":[],"q":[],"d":[]}`
	}
}

func (b *battle) safePost() (s string) {
	defer func() {
		if e := recover(); e != nil {
			s = fmt.Sprintf(`"cycle":-1,"living":-1,"count":-1,"alive":[],"q":[],"d":[],"obspanic":%q`, fmt.Sprint(e))
		}
	}()
	return b.post()
}

func (b *battle) cycle() (line string, ret int, pan string) {
	if b.lis != nil {
		b.lis.begin()
	}
	func() {
		defer func() {
			if e := recover(); e != nil {
				pan = fmt.Sprint(e)
			}
		}()
		ret = b.sim.RunCycle()
	}()
	return fmt.Sprintf(`{"ev":"cycle","ret":%d,"panic":%q,%s%s%s}`, ret, pan, b.safePost(), b.repJSON(), b.recJSON()), ret, pan
}

func (b *battle) reset() string {
	if b.lis != nil {
		b.lis.begin()
	}
	b.sim.Reset()
	return fmt.Sprintf(`{"ev":"reset",%s%s%s}`, b.safePost(), b.repJSON(), b.recJSON())
}

// stop rule evaluated from public observations only (generic)
func (b *battle) inProgress() bool {
	n, l := b.sim.WarriorCount(), b.sim.WarriorLivingCount()
	return b.sim.CycleCount() < b.cfg.C && ((n == 1 && l == 1) || (n > 1 && l >= 2))
}

func (b *battle) fullState() string {
	return fmt.Sprintf(`{%s,"core":%s}`, b.obs(), insListJSON(b.core()))
}

// ---------------------------------------------------------------- generators

func norm(v, m int) int { return ((v % m) + m) % m }

func genWarrior(r *rand.Rand, m int, hostile bool) wdata {
	I := func(op, mod, am, a, bm, b int) ins { return ins{op, mod, am, norm(a, m), bm, norm(b, m)} }
	var code []ins
	switch k := r.Intn(12); {
	case k == 0:
		code = []ins{I(1, 6, 0, 0, 0, 1)} // imp
	case k == 1:
		code = []ins{I(2, 3, 1, 4, 0, 3), I(1, 6, 0, 2, 3, 2), I(11, 2, 0, -2, 0, 0), I(0, 0, 1, 0, 1, 0)} // dwarf
	case k == 2:
		code = []ins{I(15, 2, 0, 0, 0, 0), I(11, 2, 0, -1, 0, 0)} // spl 0 / jmp -1
	case k == 3:
		code = []ins{I(15, 2, 0, 2, 5, 1), I(15, 2, 3, 1, 7, -1), I(1, 6, 0, 0, 0, 1)} // spl fan + imp
	case k == 4:
		code = []ins{I(5, 0, 0, 1, 0, 2), I(0, 0, 1, 0, 1, 1), I(0, 0, 1, 3, 1, 0)} // div with a zero divisor half
	case k == 5:
		code = []ins{I(14, 0, 0, 0, 7, 1), I(0, 0, 0, 0, 0, 0)} // djn loop
	default:
		n := 1 + r.Intn(6)
		for i := 0; i < n; i++ {
			if hostile {
				code = append(code, genIns(r, m))
			} else {
				code = append(code, genCell(r, m))
			}
		}
	}
	if len(code) > m {
		code = code[:m]
	}
	// sprinkle a mutation
	if len(code) > 0 && r.Intn(3) == 0 {
		code[r.Intn(len(code))] = genIns(r, m)
	}
	if len(code) == 0 {
		return wdata{}
	}
	return wdata{code: code, start: r.Intn(len(code))}
}

func genCfg(r *rand.Rand, ms []int) simCfg {
	m := ms[r.Intn(len(ms))]
	rl, wl := genLimits(r, m)
	// limits above the core size are accepted configurations too (no limit): up to four times the core size and beyond
	if r.Intn(8) == 0 {
		rl = m + 1 + r.Intn(4*m)
	}
	if r.Intn(8) == 0 {
		wl = []int{m + 1, 2 * m, 2*m + 1, 3 * m, 4*m - 1, 4 * m, 1 << 20}[r.Intn(7)]
	}
	c := 1 + r.Intn(60)
	if r.Intn(8) == 0 {
		c = 1 + r.Intn(3)
	}
	return simCfg{M: m, P: 1 + r.Intn(6), C: c, RL: rl, WL: wl}
}

type battleStats struct {
	battles, events, cycles, multiDeath, atLimit, many, endCycle, endLone, endSurvivor, midDeath, panics int
}

// one recorded battle; returns the lines
func recordBattle(r *rand.Rand, cfg simCfg, ws []wdata, offs []int, reports bool, twin bool, extra int, st *battleStats) []string {
	var lines []string
	b, errs := newBattle(cfg, reports)
	okv := 1
	if b == nil {
		okv = 0
	}
	rr := 0
	if recordReads {
		rr = 1
	}
	lines = append(lines, fmt.Sprintf(`{"ev":"new","M":%d,"P":%d,"C":%d,"RL":%d,"WL":%d,"ok":%d,"msg":%q,"reads":%d}`, cfg.M, cfg.P, cfg.C, cfg.RL, cfg.WL, okv, errs, rr))
	if b == nil {
		return lines
	}
	for _, w := range ws {
		lines = append(lines, b.add(w))
	}
	for i := range ws {
		lines = append(lines, b.spawn(i, offs[i]))
	}
	for b.inProgress() {
		before := b.sim.WarriorLivingCount()
		line, _, pan := b.cycle()
		lines = append(lines, line)
		st.cycles++
		if pan != "" {
			st.panics++
			break
		}
		after := b.sim.WarriorLivingCount()
		if after < before && len(ws) > 1 {
			st.multiDeath++
			if !b.ws[len(ws)-1].Alive() && after >= 1 {
				st.midDeath++
			}
		}
		for _, w := range b.ws {
			if len(w.Queue()) == cfg.P && cfg.P > 1 {
				st.atLimit++
				break
			}
		}
	}
	switch {
	case b.sim.CycleCount() >= cfg.C:
		st.endCycle++
	case len(ws) == 1:
		st.endLone++
	default:
		st.endSurvivor++
	}
	if len(ws) >= 3 {
		st.many++
	}
	for k := 0; k < extra; k++ { // stepping a finished battle: nothing may happen any more
		line, _, _ := b.cycle()
		lines = append(lines, line)
	}
	if extra > 0 && !reports && r.Intn(2) == 0 { // ... and Run() on it returns at once, with the survivors
		lines = append(lines, b.run())
	}
	if rounds2 && r.Intn(3) == 0 {
		// the simulator is reused for another round: Reset (sometimes straight after a spawn, before any task ran),
		// respawn at other places, fight again
		lines = append(lines, b.reset())
		if r.Intn(3) == 0 {
			lines = append(lines, b.spawn(0, r.Intn(3*cfg.M)))
			lines = append(lines, b.reset())
		}
		for i := range ws {
			lines = append(lines, b.spawn(i, r.Intn(2*cfg.M)))
		}
		for c := 0; c < 30 && b.inProgress(); c++ {
			line, _, pan := b.cycle()
			lines = append(lines, line)
			st.cycles++
			if pan != "" {
				break
			}
		}
		line, _, _ := b.cycle() // one more call whatever the state: a no-op unless the battle is still in progress
		lines = append(lines, line)
		twin = false
	}
	if twin {
		t, _ := newBattle(cfg, false)
		for _, w := range ws {
			t.add(w)
		}
		for i := range ws {
			t.spawn(i, offs[i])
		}
		var flags []bool
		pan := ""
		func() {
			defer func() {
				if e := recover(); e != nil {
					pan = fmt.Sprint(e)
				}
			}()
			flags = t.sim.Run()
		}()
		same := 1
		tc, bc := t.core(), b.core()
		for a := range tc {
			if tc[a] != bc[a] {
				same = 0
			}
		}
		fl := make([]int, len(flags))
		for i, f := range flags {
			if f {
				fl[i] = 1
			}
		}
		lines = append(lines, fmt.Sprintf(`{"ev":"runtwin","flags":%s,"panic":%q,%s,"same":%d}`, intsJSON(fl), pan, t.obs(), same))
	}
	st.battles++
	st.events += len(lines)
	return lines
}

func cmdBattles(args []string) {
	fs := flag.NewFlagSet("battles", flag.ExitOnError)
	out := fs.String("out", "battles", "output prefix")
	shards := fs.Int("shards", 8, "shards")
	seed := fs.Int64("seed", 1, "seed")
	n := fs.Int("n", 1000, "number of battles")
	msFlag := fs.String("M", "3,4,5,7,8,13,16,31,64", "core sizes")
	reports := fs.Bool("reports", false, "attach listener and state recorder (C15)")
	twin := fs.Bool("twin", true, "also Run() a twin simulator")
	hostile := fs.Bool("hostile", false, "fully random instruction values")
	extra := fs.Int("extra", 1, "extra RunCycle calls after the battle ended (must be no-ops)")
	maxw := fs.Int("maxw", 4, "max warriors")
	real := fs.Int("real", 0, "additional battles between repository warriors on the 8000-cell core")
	realCycles := fs.Int("realcycles", 300, "cycle limit of those battles")
	repo := fs.String("repo", "/repo", "repository root")
	reads := fs.Bool("reads", false, "with -reports: switch the StateRecorder to record reads as well")
	second := fs.Bool("rounds", true, "a third of the battles is followed by a second round on the same simulator (Reset, respawn)")
	fs.Parse(args)
	recordReads = *reads
	rounds2 = *second
	r := rand.New(rand.NewSource(*seed))
	w := newShardWriter(*out, *shards)
	ms := parseInts(*msFlag)
	st := &battleStats{}
	for k := 0; k < *n; k++ {
		cfg := genCfg(r, ms)
		nw := 1 + r.Intn(*maxw)
		var ws []wdata
		var offs []int
		for i := 0; i < nw; i++ {
			ws = append(ws, genWarrior(r, cfg.M, *hostile))
			if r.Intn(4) == 0 {
				offs = append(offs, r.Intn(3*cfg.M)) // offsets at and beyond the core size
			} else {
				offs = append(offs, r.Intn(cfg.M))
			}
		}
		for _, l := range recordBattle(r, cfg, ws, offs, *reports, *twin, *extra, st) {
			w.line(l)
		}
		w.nextUnit()
	}
	// battles between the repository's own warriors on the standard 8000-cell core (cycle limit shortened)
	if *real > 0 {
		files, _ := filepath.Glob(filepath.Join(*repo, "warriors", "94", "*.red"))
		sort.Strings(files)
		var pool []wdata
		for _, f := range files {
			b, err := os.ReadFile(f)
			if err != nil {
				continue
			}
			wd, err := gmars.CompileWarrior(strings.NewReader(string(b)), gmars.ConfigNOP94)
			if err != nil {
				continue
			}
			code := make([]ins, len(wd.Code))
			for i := range wd.Code {
				code[i] = fromG(wd.Code[i])
			}
			pool = append(pool, wdata{code, wd.Start})
		}
		for k := 0; k < *real && len(pool) > 0; k++ {
			cfg := simCfg{M: 8000, P: 8000, C: *realCycles, RL: 8000, WL: 8000}
			if r.Intn(3) == 0 {
				cfg.RL, cfg.WL = 4000, 500
			}
			ws := []wdata{pool[r.Intn(len(pool))], pool[r.Intn(len(pool))]}
			offs := []int{r.Intn(8000), 0}
			offs[1] = (offs[0] + 200 + r.Intn(7000)) % 8000
			for _, l := range recordBattle(r, cfg, ws, offs, false, *twin, 0, st) {
				w.line(l)
			}
			w.nextUnit()
		}
	}
	w.close()
	fmt.Printf(`{"battles":%d,"events":%d,"cycles":%d,"multi_death":%d,"at_limit":%d,"three_plus":%d,"end_cycle":%d,"end_lone":%d,"end_survivor":%d,"mid_death":%d,"panics":%d}`+"\n",
		st.battles, st.events, st.cycles, st.multiDeath, st.atLimit, st.many, st.endCycle, st.endLone, st.endSurvivor, st.midDeath, st.panics)
}
