package main

// "loader": replay TLC-generated load files (Loader.tla) through the real ParseLoadFile.
//   {"lines":[{"f":[field..],"comma":bool}..],"d":88|94,"M":n,"out":{"err":bool,"code":[..],"start":n}}

import (
	"flag"
	"fmt"
	"strings"

	"github.com/bobertlo/gmars"
)

func renderLoaderLine(l map[string]interface{}, k int) string {
	fs, _ := l["f"].([]interface{})
	comma, _ := l["comma"].(bool)
	if len(fs) == 0 && comma {
		return []string{",", " , , ,", ",,,,", "\t, ; all fields gone"}[k%4] // nothing but commas: neither blank nor a comment
	}
	if len(fs) == 0 {
		return []string{"", "; a comment", "   ", ";name x", "\t"}[k%5]
	}
	var out []string
	for i, x := range fs {
		f := x.([]interface{})
		s := ""
		switch f[0].(string) {
		case "w":
			s = f[1].(string)
		case "opm":
			s = f[1].(string) + "." + f[2].(string)
		case "m":
			s = f[1].(string)
		case "n":
			s = fmt.Sprint(jint(f[1]))
		default:
			s = "x"
		}
		if comma && i == 2 {
			s += ","
		}
		out = append(out, s)
	}
	t := "       " + strings.Join(out, " ")
	if comma && len(fs) < 3 {
		t += ","
	}
	if k%3 == 1 {
		t = strings.ToLower(t)
	}
	return t
}

func cmdLoader(args []string) {
	fset := flag.NewFlagSet("loader", flag.ExitOnError)
	in := fset.String("in", "", "ndjson with TLC cases")
	out := fset.String("out", "", "output prefix (mismatches)")
	fset.Parse(args)
	w := newShardWriter(*out, 1)
	n, bad, stricter, div := 0, 0, 0, 0
	lw := newShardWriter(*out+".load", 1)
	for ci, c := range readNDJSON(*in) {
		var lines []string
		for k, l := range c["lines"].([]interface{}) {
			lines = append(lines, renderLoaderLine(l.(map[string]interface{}), k+ci))
		}
		text := strings.Join(lines, "\n")
		if len(lines) > 0 && ci%4 != 0 {
			text += "\n" // every fourth case ends without a final newline
		}
		d, m := jint(c["d"]), jint(c["M"])
		o := c["out"].(map[string]interface{})
		wantErr, _ := o["err"].(bool)
		var wantCode []ins
		for _, x := range o["code"].([]interface{}) {
			wantCode = append(wantCode, specIns(x))
		}
		wantStart := jint(o["start"])
		gotErr, pan := false, ""
		var gotCode []ins
		gotStart := 0
		func() {
			defer func() {
				if e := recover(); e != nil {
					pan = fmt.Sprint(e)
				}
			}()
			wd, err := gmars.ParseLoadFile(strings.NewReader(text), cfgFor(d, m))
			gotErr = err != nil
			for _, i := range wd.Code {
				gotCode = append(gotCode, fromG(i))
			}
			gotStart = wd.Start
		}()
		n++
		same := len(gotCode) == len(wantCode) && gotStart == wantStart
		for i := range gotCode {
			if same && gotCode[i] != wantCode[i] {
				same = false
			}
		}
		switch {
		case pan != "":
			bad++
			w.line(fmt.Sprintf(`{"kind":"property","text":%s,"d":%d,"M":%d,"wanterr":%v,"want":%s,"wantstart":%d,"goterr":%v,"got":%s,"gotstart":%d,"panic":%s,"case":%s}`,
				jq(text), d, m, wantErr, insListJSON(wantCode), wantStart, gotErr, insListJSON(gotCode), gotStart, jq(pan), mustJSON(c)))
		case !gotErr && wantErr, !gotErr && !wantErr && !same:
			// accepted although the model refuses the text, or accepted with another result: a divergence between model and
			// code.  Whether the PROPERTY (C10) is violated is decided by TLC on the read itself: it goes to the "load" trace
			// (well-formed, legal under '88, one instruction per effective line - ToolTrace!CheckLoad).
			div++
			lw.line(loadEvent(text, d, m))
			if div <= 25 {
				w.line(fmt.Sprintf(`{"kind":"divergence","text":%s,"d":%d,"M":%d,"wanterr":%v,"want":%s,"wantstart":%d,"goterr":%v,"got":%s,"gotstart":%d,"panic":%s,"case":%s}`,
					jq(text), d, m, wantErr, insListJSON(wantCode), wantStart, gotErr, insListJSON(gotCode), gotStart, jq(pan), mustJSON(c)))
			}
		case gotErr && !wantErr:
			stricter++ // the reader may refuse more than the model; not a violation of the property
		}
		if bad >= 40 {
			break
		}
	}
	w.close()
	lw.close()
	fmt.Printf(`{"cases":%d,"mismatches":%d,"divergences":%d,"reader_stricter_than_model":%d}`+"\n", n, bad, div, stricter)
}
