package main

// C05: assembling ANY input terminates cleanly.
//  "fuzz":     byte-level corpus (repository warriors, mutations, token soup, invalid UTF-8, NUL, ^Z, CR/LF mixes,
//              unterminated last lines; FOR counts kept small) x valid configurations; one event per input:
//              {"ev":"fuzz","id","len","outcome":"ok|err|panic|hung","empty":0|1,"codenil":0|1,"us":micros,"leak":n,"frame":..,"b64":..}
//  "equgraphs": every EQU reference graph on <= 3 names x every use site, rendered to text and assembled:
//              {"ev":"equgraph","edges":[[0|1..]..],"site":..,"outcome":..}
// A progress file names the case being executed so that the driver can restart after a crash or a hang.

import (
	"encoding/base64"
	"flag"
	"fmt"
	"math/rand"
	"os"
	"path/filepath"
	"regexp"
	"runtime"
	"sort"
	"strings"
	"time"

	"github.com/bobertlo/gmars"
)

type asmOutcome struct {
	outcome string
	empty   int
	codenil int
	us      int64
	leak    int
	frame   string
	msg     string
}

func assembleWatched(text []byte, cfg gmars.SimulatorConfig, deadline time.Duration) asmOutcome {
	base := runtime.NumGoroutine()
	type r struct {
		w   gmars.WarriorData
		err error
		pan string
	}
	ch := make(chan r, 1)
	t0 := time.Now()
	go func() {
		x := r{}
		defer func() {
			if e := recover(); e != nil {
				x.pan = fmt.Sprint(e)
			}
			ch <- x
		}()
		x.w, x.err = gmars.CompileWarrior(strings.NewReader(string(text)), cfg)
	}()
	o := asmOutcome{}
	select {
	case x := <-ch:
		o.us = time.Since(t0).Microseconds()
		switch {
		case x.pan != "":
			o.outcome, o.msg = "panic", x.pan
		case x.err != nil:
			o.outcome, o.msg = "err", x.err.Error()
		default:
			o.outcome = "ok"
		}
		if x.w.Code == nil {
			o.codenil = 1
		}
		if x.w.Code == nil && x.w.Name == "" && x.w.Author == "" && x.w.Strategy == "" && x.w.Start == 0 {
			o.empty = 1
		}
	case <-time.After(deadline):
		o.outcome = "hung"
		o.us = deadline.Microseconds()
		return o
	}
	for i := 0; i < 200 && runtime.NumGoroutine() > base; i++ {
		runtime.Gosched()
	}
	if runtime.NumGoroutine() > base {
		o.leak, o.frame = settled()
	}
	return o
}

var forLine = regexp.MustCompile(`(?i)[^\n]*\bfor\b[^\n]*`)
var digits = regexp.MustCompile(`[0-9]+`)

// keep FOR counts small (the property bounds the product of FOR counts)
func tameFor(b []byte) []byte {
	return forLine.ReplaceAllFunc(b, func(l []byte) []byte {
		l = digits.ReplaceAllFunc(l, func(d []byte) []byte {
			v := 0
			for _, c := range d {
				v = (v*10 + int(c-'0')) % 7
			}
			return []byte(fmt.Sprint(v))
		})
		return []byte(strings.NewReplacer("*", "+", "CORESIZE", "2", "coresize", "2").Replace(string(l)))
	})
}

func corpus(repo string) [][]byte {
	var out [][]byte
	var files []string
	for _, pat := range []string{"warriors/94/*.red", "warriors/88/*.red", "warriors/*.rc", "test_files/*.rc"} {
		f, _ := filepath.Glob(filepath.Join(repo, pat))
		files = append(files, f...)
	}
	sort.Strings(files)
	for _, f := range files {
		if b, err := os.ReadFile(f); err == nil {
			out = append(out, b)
		}
	}
	for _, s := range []string{
		"mov 0, 1\n", "for 3\ndat 0\nrof\n", "i for 2\nj for 3\n dat i, j\nrof\nrof\n", "x equ 3\nfor x\n dat x\nrof\n", "a equ b\nb equ a\n;assert a\ndat 0\n",
		"for x\ndat 0\nrof\n", "for 1/0\nrof\n", "for 2\ndat 0\nrof", "foo 1\nfor 2\n", "for 1\nrof\n =x\n", "x equ x+1\ndat x\n", "dat 1 =\n", "a: b: mov a, b ; c\n",
		";name x\n;author y\n;strategy z\norg 1\nnop 0\njmp -1\nend\n", "lbl\n\n  lbl2 spl lbl, <lbl2\n", "", "\n\n\n", ";", "end", "rof", "for", "equ", "x equ", ":", ",", "#", "(", ")",
	} {
		out = append(out, []byte(s))
	}
	// EQU definitions with an empty or degenerate value, used at every site
	for _, def := range []string{"x equ ;c\n", "x equ ;\n", "x equ ( )\n", "x equ +\n", "x equ x ;c\n", "x y equ ;c\n"} {
		for _, use := range []string{" dat x\n", " dat 1, x+1\n", ";assert x\n dat 0\n", "for x\n dat 0\nrof\n", " org x\n dat 0\n", " dat 0\n end x\n", " dat 0\n"} {
			out = append(out, []byte(def+use), []byte(use+def))
		}
	}
	// ;assert lines with a second semicolon, valid non-ASCII letters and digits outside comments
	for _, s := range []string{";assert 1 ; remark\n dat 0\n", ";assert 1;\n dat 0\n", ";assert ;\n dat 0\n", ";assert CORESIZE==CORESIZE ; ok\n", " dat 0 ;assert 0 ; x\n",
		"\u00e9 dat 0, 0\n", "jmp sta\u0155t\nsta\u0155t dat 0\n", "\u03bb equ 1\n dat \u03bb\n", "dat 0\n\u00e9", "\u5b57 dat 1\n", "mov \u0661, 2\n", "x\u00e9 equ 2\n dat x\u00e9\n", "dat 0 ; \u00e9\n"} {
		out = append(out, []byte(s))
	}
	// expressions that stop in the middle, at every use site
	for _, head := range []string{" dat ", "x equ ", " dat 0\n org ", " dat 0\n end ", ";assert ", "for ", " mov 1, #"} {
		for _, tail := range []string{"1+", "1+-", "(-", "4/-+", "--", "-", "+", "1*", "(", ")", "1)", "((1)", "1 2", "*", "1/", "1%-", "-(", "+-+-"} {
			text := head + tail + "\n"
			if strings.HasPrefix(head, "x equ") {
				text += " dat x\n"
			}
			if strings.HasPrefix(head, "for") {
				text += " dat 0\nrof\n"
			}
			out = append(out, []byte(text), []byte(strings.TrimSuffix(text, "\n")))
		}
	}
	// metadata keywords cut at every length, with every line ending, before and after an instruction
	for _, kw := range []string{";name", ";author", ";strategy", ";assert", ";redcode-94"} {
		for n := 1; n <= len(kw)+2; n++ {
			t := kw + " x"
			if n < len(t) {
				t = t[:n]
			}
			for _, end := range []string{"\n", "\r\n", ""} {
				out = append(out, []byte(t+end+"mov 0, 1\n"), []byte("mov 0, 1\n"+t+end))
			}
		}
	}
	// large inputs (time proportional to the size, no limit below which the pipeline behaves and above which it does not):
	// tens of thousands of lines and tokens, a single line of 300 000 characters, a deep parenthesis nest
	out = append(out,
		[]byte(strings.Repeat("dat 0\n", 30000)),
		[]byte(strings.Repeat(" mov.i $0, $1 ; imp\n", 12000)),
		[]byte(strings.Repeat("x", 300000)+"\n dat 0\n"),
		[]byte("dat "+strings.Repeat("1+", 40000)+"1\n"),
		[]byte("; "+strings.Repeat("c", 200000)+"\nmov 0, 1\n"),
		[]byte("dat "+strings.Repeat("(", 3000)+"1"+strings.Repeat(")", 3000)+"\n"),
		[]byte(strings.Repeat("l", 70000)+" equ 1\n"+strings.Repeat("\n", 70000)+"dat 0\n"))
	// every prefix of a few small programs, with and without a final newline
	for _, s := range []string{";name a\n;strategy b\nstart mov.i $0, $1 ; imp\n end start\n", "x equ 2\ni for x\n dat i, x\nrof\n;assert x\n"} {
		for n := 0; n <= len(s); n++ {
			out = append(out, []byte(s[:n]), []byte(s[:n]+"\n"))
		}
	}
	// EQU reference graphs with many paths but few names (a(i) refers to a(i-1) and a(i-2): Fibonacci-many paths).  The
	// values are empty, so nothing large is ever built: only a cycle check that walks every path is slow
	noMutate = 0
	for _, n := range []int{30, 45, 80} {
		noMutate += 2
		var sb strings.Builder
		sb.WriteString("a0 equ\na1 equ\n")
		for i := 2; i <= n; i++ {
			fmt.Fprintf(&sb, "a%d equ a%d a%d\n", i, i-1, i-2)
		}
		out = append(out, []byte(sb.String()+" dat 0\n"), []byte(sb.String()+"for 1\n dat 0\nrof\n"))
	}
	return out
}

// number of trailing corpus entries that are assembled as they are but never used as a base for mutation (a mutation can
// give their leaves a value, and then textual substitution itself is exponential, which no assembler can help)
var noMutate int

func mutate(r *rand.Rand, b []byte) []byte {
	b = append([]byte{}, b...)
	n := 1 + r.Intn(4)
	for k := 0; k < n; k++ {
		switch r.Intn(12) {
		case 0: // byte flip
			if len(b) > 0 {
				b[r.Intn(len(b))] ^= byte(1 << uint(r.Intn(8)))
			}
		case 1: // delete a token
			f := strings.Fields(string(b))
			if len(f) > 0 {
				b = []byte(strings.Replace(string(b), f[r.Intn(len(f))], "", 1))
			}
		case 2: // duplicate a token
			f := strings.Fields(string(b))
			if len(f) > 0 {
				x := f[r.Intn(len(f))]
				b = []byte(strings.Replace(string(b), x, x+" "+x, 1))
			}
		case 3: // transpose two lines
			l := strings.Split(string(b), "\n")
			if len(l) > 2 {
				i, j := r.Intn(len(l)), r.Intn(len(l))
				l[i], l[j] = l[j], l[i]
				b = []byte(strings.Join(l, "\n"))
			}
		case 4: // splice soup
			pos := 0
			if len(b) > 0 {
				pos = r.Intn(len(b))
			}
			s := soupTokens[r.Intn(len(soupTokens))]
			b = append(b[:pos:pos], append([]byte(" "+s+" "), b[pos:]...)...)
		case 5: // invalid UTF-8 / NUL / ^Z
			pos := 0
			if len(b) > 0 {
				pos = r.Intn(len(b))
			}
			x := [][]byte{{0xff}, {0xc3, 0x28}, {0}, {0x1a}, {0xe2, 0x82}, {0xf0, 0x9f, 0x92, 0xa9}, {'\r'}}[r.Intn(7)]
			b = append(b[:pos:pos], append(x, b[pos:]...)...)
		case 6: // CRLF / CR
			if r.Intn(2) == 0 {
				b = []byte(strings.ReplaceAll(string(b), "\n", "\r\n"))
			} else {
				b = []byte(strings.Replace(string(b), "\n", "\r", 1+r.Intn(3)))
			}
		case 7: // unterminated last line
			b = []byte(strings.TrimRight(string(b), "\n"))
		case 8: // truncate
			if len(b) > 0 {
				b = b[:r.Intn(len(b))]
			}
		case 9: // duplicate a line
			l := strings.Split(string(b), "\n")
			i := r.Intn(len(l))
			l = append(l[:i+1:i+1], l[i:]...)
			b = []byte(strings.Join(l, "\n"))
		case 10: // wrap in a small FOR
			b = []byte(fmt.Sprintf("q%d for %d\n%s\nrof\n", r.Intn(9), r.Intn(4), string(b)))
		default: // pure soup
			var sb strings.Builder
			for i := 2 + r.Intn(20); i > 0; i-- {
				sb.WriteString(soupTokens[r.Intn(len(soupTokens))])
				if r.Intn(3) != 0 {
					sb.WriteByte(' ')
				}
			}
			b = []byte(sb.String())
		}
	}
	if len(b) > 8192 {
		b = b[:8192]
	}
	return tameFor(b)
}

var fuzzConfigs = []gmars.SimulatorConfig{gmars.ConfigNOP94, gmars.ConfigKOTH88, gmars.ConfigICWS88, gmars.ConfigNopTiny, gmars.ConfigNopNano,
	gmars.NewQuickConfig(gmars.ICWS94, 17, 3, 10, 5), gmars.NewQuickConfig(gmars.ICWS88, 8000, 8000, 80000, 100)}

func cmdFuzz(args []string) {
	fs := flag.NewFlagSet("fuzz", flag.ExitOnError)
	out := fs.String("out", "fuzz", "output file prefix")
	seed := fs.Int64("seed", 1, "seed")
	n := fs.Int("n", 5000, "inputs")
	from := fs.Int("from", 0, "first case index")
	repo := fs.String("repo", "/repo", "repository (corpus)")
	progress := fs.String("progress", "", "progress file")
	only := fs.String("only", "", "base64 input to assemble under every configuration (replay)")
	tokseq := fs.Int("tokseq", 0, "instead of the random corpus: every sequence of up to this many source tokens")
	fs.Parse(args)
	w := newShardWriterMode(*out, 1, *from > 0)
	leaks := 0
	emit := func(id int, text []byte, ci int) {
		if leaks >= 20 {
			return // enough evidence; every further leaking case costs a settle loop
		}
		if *progress != "" {
			os.WriteFile(*progress, []byte(fmt.Sprintf("%d %d %s", id, ci, base64.StdEncoding.EncodeToString(text))), 0644)
		}
		o := assembleWatched(text, fuzzConfigs[ci], 10*time.Second)
		w.line(fmt.Sprintf(`{"ev":"fuzz","id":%d,"cfg":%d,"len":%d,"outcome":%q,"empty":%d,"codenil":%d,"us":%d,"leak":%d,"frame":%s,"msg":%s,"b64":%q}`,
			id, ci, len(text), o.outcome, o.empty, o.codenil, o.us, o.leak, jq(o.frame), jq(o.msg), base64.StdEncoding.EncodeToString(text)))
		if o.leak > 0 {
			leaks++
		}
		if o.outcome == "hung" {
			w.close()
			os.Exit(3) // a spinning goroutine cannot be stopped: the driver restarts after this case
		}
	}
	if *only != "" {
		b64 := *only
		if strings.HasPrefix(b64, "@") { // large inputs do not fit on a command line: the base64 text is in a file
			fb, err := os.ReadFile(b64[1:])
			if err != nil {
				fatal("read %s: %v", b64[1:], err)
			}
			b64 = strings.TrimSpace(string(fb))
		}
		text, _ := base64.StdEncoding.DecodeString(b64)
		for ci := range fuzzConfigs {
			emit(ci, text, ci)
		}
		w.close()
		fmt.Printf(`{"cases":%d}`+"\n", len(fuzzConfigs))
		return
	}
	if *tokseq > 0 {
		// every sequence of up to L source tokens (joined by blanks), under two configurations
		alpha := []string{"mov", "dat", "lbl", "x", "equ", "org", "end", "for", "rof", "3", "0", ",", "#", "<", "*", "+", "-", "/", "(", ")", ":", ";c", "\n", "=", "mov.i", "CORESIZE"}
		id := 0
		var rec func(prefix []string, depth int)
		rec = func(prefix []string, depth int) {
			if id >= *from {
				text := strings.Join(prefix, " ")
				emit(id, []byte(text), id%2)
				if len(prefix) > 0 {
					emit(id, []byte(text+"\n"), (id+1)%2)
				}
			}
			id++
			if depth == *tokseq {
				return
			}
			for _, a := range alpha {
				rec(append(prefix[:len(prefix):len(prefix)], a), depth+1)
			}
		}
		rec(nil, 0)
		w.close()
		fmt.Printf(`{"cases":%d}`+"\n", id)
		return
	}
	r := rand.New(rand.NewSource(*seed))
	cor := corpus(*repo)
	for id := 0; id < *n; id++ {
		var text []byte
		base := cor[r.Intn(len(cor)-noMutate)]
		if id < len(cor) {
			text = cor[id]
		} else {
			text = mutate(r, base)
		}
		ci := r.Intn(len(fuzzConfigs))
		if id < *from {
			continue
		}
		emit(id, text, ci)
	}
	w.close()
	fmt.Printf(`{"cases":%d}`+"\n", *n)
}

// every reference graph on <= 3 EQU names x use site
func cmdEquGraphs(args []string) {
	fs := flag.NewFlagSet("equgraphs", flag.ExitOnError)
	out := fs.String("out", "eg", "output prefix")
	from := fs.Int("from", 0, "first case index")
	progress := fs.String("progress", "", "progress file")
	fs.Parse(args)
	w := newShardWriterMode(*out, 1, *from > 0)
	names := []string{"a", "b", "c"}
	sites := []string{"operand", "assert", "forcount", "org", "unused"}
	id := 0
	for nn := 1; nn <= 3; nn++ {
		for g := 0; g < 1<<uint(nn*nn); g++ {
			edges := make([][]int, nn)
			var sb strings.Builder
			for i := 0; i < nn; i++ {
				edges[i] = make([]int, nn)
				body := "1"
				for j := 0; j < nn; j++ {
					if g>>(uint(i*nn+j))&1 == 1 {
						edges[i][j] = 1
						body += "+" + names[j]
					}
				}
				fmt.Fprintf(&sb, "%s equ %s\n", names[i], body)
			}
			for _, site := range sites {
				text := sb.String()
				switch site {
				case "operand":
					text += " dat a, 0\n"
				case "assert":
					text += ";assert a\n dat 0\n"
				case "forcount":
					text += "for a\n dat 0\nrof\n dat 0\n"
				case "org":
					text += " org (a)-(a)\n dat 0\n"
				default:
					text += " dat 0\n"
				}
				if id >= *from {
					if *progress != "" {
						os.WriteFile(*progress, []byte(fmt.Sprintf("%d 0 %s", id, base64.StdEncoding.EncodeToString([]byte(text)))), 0644)
					}
					o := assembleWatched([]byte(text), gmars.ConfigNOP94, 5*time.Second)
					var es []string
					for _, e := range edges {
						es = append(es, intsJSON(e))
					}
					w.line(fmt.Sprintf(`{"ev":"equgraph","id":%d,"n":%d,"edges":[%s],"site":%q,"outcome":%q,"empty":%d,"codenil":%d,"us":%d,"leak":%d,"text":%s}`,
						id, nn, strings.Join(es, ","), site, o.outcome, o.empty, o.codenil, o.us, o.leak, jq(text)))
					if o.outcome == "hung" {
						w.close()
						os.Exit(3)
					}
				}
				id++
			}
		}
	}
	w.close()
	fmt.Printf(`{"cases":%d}`+"\n", id)
}
