package main

// "parse": replay TLC-generated parser cases (Parser.tla) through the real parser (verif accessor VerifParse).

import (
	"flag"
	"fmt"
	"strings"

	"github.com/bobertlo/gmars"
)

func parseTok(t, v string) gmars.VerifToken {
	typ := map[string]int{"lbl": gmars.VerifTokText, "op": gmars.VerifTokText, "org": gmars.VerifTokText, "end": gmars.VerifTokText,
		"num": gmars.VerifTokNumber, "sym": gmars.VerifTokSymbol, "mode": gmars.VerifTokSymbol, "star": gmars.VerifTokSymbol,
		"comma": gmars.VerifTokComma, "colon": gmars.VerifTokColon, "lp": gmars.VerifTokParenL, "cmt": gmars.VerifTokComment,
		"nl": gmars.VerifTokNewline, "inv": gmars.VerifTokInvalid, "eof": gmars.VerifTokEOF, "err": gmars.VerifTokError}
	ty, ok := typ[t]
	if !ok {
		fatal("unknown parser token class %q", t)
	}
	return gmars.VerifToken{Typ: ty, Val: v}
}

func valsOf(ts []gmars.VerifToken) string {
	var s []string
	for _, t := range ts {
		s = append(s, t.Val)
	}
	return strings.Join(s, " ")
}

func cmdParse(args []string) {
	fs := flag.NewFlagSet("parse", flag.ExitOnError)
	in := fs.String("in", "", "ndjson with TLC cases")
	out := fs.String("out", "", "output prefix (mismatches)")
	fs.Parse(args)
	w := newShardWriter(*out, 1)
	n, bad, div := 0, 0, 0
	for _, c := range readNDJSON(*in) {
		var toks []gmars.VerifToken
		for _, x := range c["in"].([]interface{}) {
			m := x.(map[string]interface{})
			toks = append(toks, parseTok(m["t"].(string), m["v"].(string)))
		}
		o := c["out"].(map[string]interface{})
		wantErr, _ := o["err"].(bool)
		var want []string
		for _, l := range o["lines"].([]interface{}) {
			m := l.(map[string]interface{})
			vals := func(k string) string {
				var s []string
				for _, x := range m[k].([]interface{}) {
					s = append(s, x.(map[string]interface{})["v"].(string))
				}
				return strings.Join(s, " ")
			}
			code := 0
			if jint(m["typ"]) == 1 {
				code = jint(m["code"])
			}
			want = append(want, fmt.Sprintf("%d|%d|%s|%s|%s|%s|%s|%s", jint(m["typ"]), code, strings.Join(jstrs(m["labels"]), ","), jstr(m["op"]), jstr(m["am"]), vals("a"), jstr(m["bm"]), vals("b")))
		}
		var got []string
		gotErr, pan := false, ""
		func() {
			defer func() {
				if e := recover(); e != nil {
					pan = fmt.Sprint(e)
				}
			}()
			lines, err := gmars.VerifParse(toks)
			gotErr = err != nil
			for _, l := range lines {
				code := 0
				if l.Typ == 1 {
					code = l.CodeLine
				}
				got = append(got, fmt.Sprintf("%d|%d|%s|%s|%s|%s|%s|%s", l.Typ, code, strings.Join(l.Labels, ","), l.Op, l.AMode, valsOf(l.A), l.BMode, valsOf(l.B)))
			}
		}()
		n++
		// on error the real parser returns no lines; only the error itself is compared then
		ok := pan == "" && gotErr == wantErr && (wantErr || strings.Join(got, "\n") == strings.Join(want, "\n"))
		if !ok {
			// only a panic is a violation of the property (C05); other source lines are a divergence between model and code
			kind := "divergence"
			if pan != "" {
				kind = "property"
				bad++
			} else {
				div++
			}
			if pan != "" || div <= 25 {
				w.line(fmt.Sprintf(`{"kind":%q,"in":%s,"want":%s,"wanterr":%v,"got":%s,"goterr":%v,"panic":%s,"case":%s}`, kind, mustJSON(c["in"]), strsJSON(want), wantErr, strsJSON(got), gotErr, jq(pan), mustJSON(c)))
			}
			if bad >= 40 {
				break
			}
		}
	}
	w.close()
	fmt.Printf(`{"cases":%d,"mismatches":%d,"divergences":%d}`+"\n", n, bad, div)
}
