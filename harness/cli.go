package main

// "cli": invocations of the real cmd/gmars binary (C17).
//   {"ev":"cli","flags":{"s","p","c","l","eight","preset","F","r"},"progs":[<abstract program>..],"out":[[wins,ties]..],"exit":n,"stderr":..,"raw":..}
// The warrior files are renderings of abstract programs, so what they denote is known to the
// specification by construction (Asm!Meaning); the tallies are decided by TLC (CliTrace.tla).

import (
	"bytes"
	"flag"
	"fmt"
	"math/rand"
	"os"
	"os/exec"
	"path/filepath"
	"regexp"
	"strconv"
	"strings"
	"time"
)

type cliFlags struct {
	s, p, c, l int
	eight      bool
	preset     string
	F, r       int
	A          bool // -A: assemble and print the listings only
	D          bool // -debug: the debug reporter's transcript precedes the result lines
}

type presetDoc struct{ dialect, m, l, p, c, d int }

// the preset table AS DOCUMENTED in README.md (used only to fill in the predefined names of the programs)
var presetsDoc = map[string]presetDoc{
	// (the minimum distance is not in the README table; it equals the length except for icws, where the preset table of
	// the library says 100)
	"nop94": {94, 8000, 100, 8000, 80000, 100}, "88": {88, 8000, 100, 8000, 80000, 100}, "icws": {88, 8192, 300, 8000, 100000, 100},
	"noptiny": {94, 800, 20, 800, 8000, 20}, "nop256": {94, 256, 10, 60, 2560, 10}, "nopnano": {94, 80, 5, 80, 800, 5},
}

func (f cliFlags) args() []string {
	if f.D {
		g := f
		g.D = false
		return append([]string{"-debug"}, g.args()...)
	}
	if f.A {
		g := f
		g.A = false
		return append([]string{"-A"}, g.args()...)
	}
	if f.preset != "" {
		a := []string{"-preset", f.preset}
		// other configuration flags given together with a preset are documented to be ignored
		if f.eight {
			a = append(a, "-8")
		}
		if f.s != 0 {
			a = append(a, "-s", fmt.Sprint(f.s))
		}
		if f.p != 0 {
			a = append(a, "-p", fmt.Sprint(f.p))
		}
		if f.c != 0 {
			a = append(a, "-c", fmt.Sprint(f.c))
		}
		if f.l != 0 {
			a = append(a, "-l", fmt.Sprint(f.l))
		}
		if f.F != 0 {
			a = append(a, "-F", fmt.Sprint(f.F))
		}
		if f.r != 1 {
			a = append(a, "-r", fmt.Sprint(f.r))
		}
		return a
	}
	a := []string{"-s", fmt.Sprint(f.s), "-p", fmt.Sprint(f.p), "-c", fmt.Sprint(f.c), "-l", fmt.Sprint(f.l)}
	if f.eight {
		a = append(a, "-8")
	}
	if f.F != 0 {
		a = append(a, "-F", fmt.Sprint(f.F))
	}
	a = append(a, "-r", fmt.Sprint(f.r))
	return a
}

func (f cliFlags) json() string {
	e := 0
	if f.eight {
		e = 1
	}
	return fmt.Sprintf(`{"s":%d,"p":%d,"c":%d,"l":%d,"eight":%d,"preset":%q,"F":%d,"r":%d}`, f.s, f.p, f.c, f.l, e, f.preset, f.F, f.r)
}

// configuration values for the programs' predefined names
func (f cliFlags) progCfg() prog {
	if f.preset != "" {
		d := presetsDoc[f.preset]
		return prog{Dialect: d.dialect, M: d.m, L: d.l, P: d.p, D: d.d}
	}
	d := 94
	if f.eight {
		d = 88
	}
	return prog{Dialect: d, M: f.s, L: f.l, P: f.p, D: f.l}
}

func runCLI(bin, dir string, f cliFlags, progs []prog, r *rand.Rand, id int) string {
	var files []string
	for k, p := range progs {
		path := filepath.Join(dir, fmt.Sprintf("w%d_%d.red", id, k))
		os.WriteFile(path, []byte(render(p, &renderOpts{r: r, plain: r.Intn(2) == 0})), 0644)
		files = append(files, path)
	}
	cmd := exec.Command(bin, append(f.args(), files...)...)
	var so, se bytes.Buffer
	cmd.Stdout, cmd.Stderr = &so, &se
	done := make(chan error, 1)
	cmd.Start()
	go func() { done <- cmd.Wait() }()
	exit, timedOut := 0, 0
	select {
	case err := <-done:
		if err != nil {
			exit = 1
			if ee, ok := err.(*exec.ExitError); ok {
				exit = ee.ExitCode()
			}
		}
	case <-time.After(120 * time.Second):
		cmd.Process.Kill()
		timedOut, exit = 1, -1
	}
	for _, p := range files {
		os.Remove(p)
	}
	if f.A {
		// -A: one listing per warrior, each followed by an empty line.  Generic tokenization as for C16: fields split on
		// blanks and commas, OP.MOD split at the dot, integers as numbers; an empty line closes a listing.
		var lists []string
		var cur []string
		flush := func() {
			if len(cur) > 0 {
				lists = append(lists, "["+strings.Join(cur, ",")+"]")
				cur = nil
			}
		}
		for _, l := range strings.Split(so.String(), "\n") {
			fl := strings.Fields(strings.ReplaceAll(l, ",", " "))
			if len(fl) == 0 {
				flush()
				continue
			}
			var g []string
			for _, x := range fl {
				if _, err := strconv.Atoi(x); err == nil {
					g = append(g, x)
				} else if k := strings.Index(x, "."); k > 0 {
					g = append(g, jq(x[:k]), jq(x[k+1:]))
				} else {
					g = append(g, jq(x))
				}
			}
			cur = append(cur, "["+strings.Join(g, ",")+"]")
		}
		flush()
		var ps []string
		for _, p := range progs {
			ps = append(ps, p.json())
		}
		return fmt.Sprintf(`{"ev":"cliA","flags":%s,"progs":[%s],"lists":[%s],"exit":%d,"timeout":%d,"stderr":%s,"raw":%s}`,
			f.json(), strings.Join(ps, ","), strings.Join(lists, ","), exit, timedOut, jq(se.String()), jq(so.String()))
	}
	// -debug: the transcript of the debug reporter comes first.  Its lines are projected onto the scheduling skeleton
	// ["cycle",n,0] ["spawn",w,a] ["exec",w,pc] ["wterm",w,pc]; every other transcript line (pushes, reads, writes, task
	// terminations) is only counted.  Whatever is left over is handed to the result-line tokenizer below.
	outText := so.String()
	var dbg []string
	other := 0
	if f.D {
		var rest []string
		for _, l := range strings.Split(strings.TrimRight(outText, "\n"), "\n") {
			if m := dbgCycleRe.FindStringSubmatch(l); m != nil {
				dbg = append(dbg, fmt.Sprintf(`["cycle",%s,0]`, trimZeros(m[1])))
			} else if m := dbgLineRe.FindStringSubmatch(l); m != nil {
				kind := ""
				switch {
				case m[1] == "w" && m[4] == "Warrior Spawn":
					kind = "spawn"
				case m[1] == "W" && strings.HasPrefix(m[4], "Exec "):
					kind = "exec"
				case m[1] == "W" && m[4] == "Warrior Terminated":
					kind = "wterm"
				}
				if kind != "" {
					dbg = append(dbg, fmt.Sprintf(`[%q,%s,%s]`, kind, trimZeros(m[2]), trimZeros(m[3])))
				} else {
					other++
				}
			} else if dbgPushRe.MatchString(l) || l == "Simulator reset" {
				other++
			} else {
				rest = append(rest, l)
			}
		}
		outText = strings.Join(rest, "\n")
	}
	// generic tokenization of the result lines
	var rows []string
	parsed := 1
	for _, l := range strings.Split(strings.TrimRight(outText, "\n"), "\n") {
		fl := strings.Fields(l)
		var nums []int
		for _, x := range fl {
			v, err := strconv.Atoi(x)
			if err != nil {
				parsed = 0
			}
			nums = append(nums, v)
		}
		rows = append(rows, intsJSON(nums))
	}
	var ps []string
	for _, p := range progs {
		ps = append(ps, p.json())
	}
	if f.D {
		raw := so.String()
		if len(raw) > 4000 {
			raw = raw[:2000] + " ... " + raw[len(raw)-2000:]
		}
		return fmt.Sprintf(`{"ev":"cliD","flags":%s,"progs":[%s],"out":[%s],"log":[%s],"other":%d,"parsed":%d,"exit":%d,"timeout":%d,"stderr":%s,"raw":%s}`,
			f.json(), strings.Join(ps, ","), strings.Join(rows, ","), strings.Join(dbg, ","), other, parsed, exit, timedOut, jq(se.String()), jq(raw))
	}
	return fmt.Sprintf(`{"ev":"cli","flags":%s,"progs":[%s],"out":[%s],"parsed":%d,"exit":%d,"timeout":%d,"stderr":%s,"raw":%s}`,
		f.json(), strings.Join(ps, ","), strings.Join(rows, ","), parsed, exit, timedOut, jq(se.String()), jq(so.String()))
}

var (
	dbgCycleRe = regexp.MustCompile(`^(\d+)$`)
	dbgLineRe  = regexp.MustCompile(`^([wW])(\d+) (\d+): (.*)$`)
	dbgPushRe  = regexp.MustCompile(`^W\d+: Task Push \d+$`)
)

func trimZeros(x string) string {
	x = strings.TrimLeft(x, "0")
	if x == "" {
		return "0"
	}
	return x
}

// small fighting programs; fields are kept inside the core
func cliProgram(r *rand.Rand, cfg prog, maxLen int) prog {
	p := cfg
	n := 1 + r.Intn(maxLen)
	var items []item
	g := &genCtx{r: r, p: &p, lline: map[string]int{}, equToks: map[string][]tok{}, pre: true, nIns: n}
	ops := ops94
	if cfg.Dialect == 88 {
		ops = ops88
	}
	for i := 0; i < n; i++ {
		it := item{T: "ins", HasB: true}
		switch r.Intn(6) {
		case 0:
			it.Op, it.A, it.B = "MOV", []tok{num(0)}, []tok{num(1)} // imp
		case 1:
			it.Op, it.A, it.B = "JMP", []tok{num(0)}, []tok{num(0)}
		case 2:
			it.Op, it.Am, it.A, it.Bm, it.B = "DAT", "#", []tok{num(0)}, "#", []tok{num(r.Intn(5))}
		case 3:
			it.Op, it.A, it.B = "SPL", []tok{num(r.Intn(3))}, []tok{num(0)}
			if cfg.Dialect == 94 && r.Intn(2) == 0 {
				it.Bm = "<"
			}
		case 4:
			it.Op, it.Am, it.A, it.B = "ADD", "#", []tok{num(1 + r.Intn(7))}, []tok{num(1 + r.Intn(3))}
		default:
			it.Op = ops[r.Intn(len(ops))]
			it.A, it.B = g.safeExpr(1, 0), g.safeExpr(1, 0)
			if cfg.Dialect == 88 {
				switch it.Op {
				case "DAT":
					it.Am, it.Bm = "#", "#"
				case "JMP", "JMZ", "JMN", "DJN", "SPL":
					it.Am = []string{"", "@", "<"}[r.Intn(3)]
				default:
					it.Bm = []string{"", "@", "<"}[r.Intn(3)]
				}
			} else {
				if r.Intn(2) == 0 {
					it.Am = modes94[r.Intn(8)]
				}
				if r.Intn(2) == 0 {
					it.Bm = modes94[r.Intn(8)]
				}
			}
		}
		items = append(items, it)
	}
	if r.Intn(3) == 0 {
		items = append(items, item{T: "end", Toks: []tok{num(r.Intn(n))}})
	}
	p.Items = items
	return p
}

func insItem(opc, mod, am string, a int, bm string, b int) item {
	return item{T: "ins", Op: opc, Mod: mod, Am: am, A: numTok(a), Bm: bm, B: numTok(b), HasB: true}
}

func numTok(v int) []tok {
	if v < 0 {
		return []tok{op("-"), num(-v)}
	}
	return []tok{num(v)}
}

func cmdCLI(args []string) {
	fs := flag.NewFlagSet("cli", flag.ExitOnError)
	out := fs.String("out", "cli", "output prefix")
	shards := fs.Int("shards", 4, "shards")
	seed := fs.Int64("seed", 1, "seed")
	n := fs.Int("n", 150, "random invocations")
	bin := fs.String("bin", "", "path of the gmars binary built from the repository")
	presets := fs.Bool("presets", true, "include the preset scenarios")
	assemble := fs.Bool("assemble", false, "run the binary with -A (listings only) instead of battles")
	long := fs.Bool("long", false, "include battles of thousands of cycles on 8000-cell cores (slow to validate)")
	fs.Parse(args)
	r := rand.New(rand.NewSource(*seed))
	w := newShardWriter(*out, *shards)
	dir, _ := os.MkdirTemp("", "vcli")
	defer os.RemoveAll(dir)
	id, fixed, random, single, debug := 0, 0, 0, 0, 0
	emit := func(f cliFlags, progs []prog) {
		w.line(runCLI(*bin, dir, f, progs, r, id))
		w.nextUnit()
		id++
	}
	if *assemble {
		// "-A": listings of 1 or 2 generated warriors under custom flags and under every preset
		names := []string{"", "", "", "nopnano", "nop256", "noptiny", "nop94", "88", "icws"}
		for k := 0; k < *n; k++ {
			l := 1 + r.Intn(8)
			f := cliFlags{s: []int{3*l + 1, 3*l + 2 + r.Intn(60), 8000, 8191, 257}[r.Intn(5)], p: 1 + r.Intn(8), c: 1 + r.Intn(150), l: l, eight: r.Intn(3) == 0, r: 1, A: true}
			if nm := names[r.Intn(len(names))]; nm != "" {
				f = cliFlags{preset: nm, r: 1, A: true}
				l = presetsDoc[nm].l
				if l > 12 {
					l = 12
				}
			}
			cfg := f.progCfg()
			progs := []prog{cliProgram(r, cfg, l)}
			if r.Intn(2) == 0 {
				progs = append(progs, cliProgram(r, cfg, l))
			}
			emit(f, progs)
		}
		w.close()
		fmt.Printf(`{"invocations":%d,"fixed":0,"random":0,"single":0}`+"\n", id)
		return
	}
	for k := 0; k < *n; k++ {
		l := 1 + r.Intn(6)
		s := 3*l + 1 + r.Intn(40)
		if r.Intn(4) == 0 {
			s = 3*l + 1 // the smallest core the property allows
		}
		f := cliFlags{s: s, p: 1 + r.Intn(8), c: 1 + r.Intn(150), l: l, eight: r.Intn(3) == 0, r: 1 + r.Intn(3)}
		if r.Intn(6) == 0 {
			f.p = s + 1 + r.Intn(50)
		}
		switch r.Intn(4) {
		case 0: // random placement: only the counting identities can be checked
			f.F = 0
			f.r = 1 + r.Intn(12)
			random++
		default: // fixed placement anywhere in the legal range
			lo, hi := 2*l, s-l-1
			if hi < lo {
				hi = lo
			}
			f.F = lo + r.Intn(hi-lo+1)
			if r.Intn(4) == 0 {
				f.F = s - 1 - r.Intn(l) // warrior 2 wraps past the last address
			}
			if f.F <= 0 {
				f.F = lo
			}
			fixed++
		}
		cfg := f.progCfg()
		progs := []prog{cliProgram(r, cfg, l), cliProgram(r, cfg, l)}
		if r.Intn(8) == 0 {
			progs = progs[:1]
			single++
		}
		// one invocation in three of those with a determined battle also asks for the debug reporter's transcript (one round)
		if (f.F != 0 || len(progs) == 1) && r.Intn(3) == 0 {
			f.D, f.r = true, 1
			debug++
		}
		emit(f, progs)
	}
	if *presets {
		park := func(c prog) prog { q := c; q.Items = []item{insItem("JMP", "", "", 0, "", 0)}; return q }
		imp := func(c prog) prog { q := c; q.Items = []item{insItem("MOV", "", "", 0, "", 1)}; return q }
		for _, name := range []string{"nopnano", "nop256", "noptiny", "nop94", "88", "icws"} {
			d := presetsDoc[name]
			f := cliFlags{preset: name, r: 1 + r.Intn(2)}
			switch r.Intn(4) { // flags that a preset overrides
			case 0:
				f.eight = true
			case 1:
				f.s, f.l = 64, 3
			case 2:
				f.p, f.c = 2, 5
			}
			cfg := f.progCfg()
			// (a) a bomber whose secondary pointer reaches M-1 cells backwards (read/write limits matter), against a parked opponent at M-1
			bomber := cfg
			bm := "@"
			bomber.Items = []item{insItem("DAT", "", "#", 0, "#", -1), insItem("MOV", "", "", 3, bm, -1), insItem("JMP", "", "", 0, "", 0), insItem("DAT", "", "#", 0, "#", 0),
				{T: "end", Toks: []tok{num(1)}}}
			f.F = d.m - 1
			emit(f, []prog{bomber, park(cfg)})
			// (b) a direct far write just beyond half of a smaller limit
			far := cfg
			tgt := d.m/2 - 5
			far.Items = []item{insItem("MOV", "", "", 2, "", tgt), insItem("JMP", "", "", 0, "", 0), insItem("DAT", "", "#", 0, "#", 0)}
			f.F = tgt
			emit(f, []prog{far, park(cfg)})
			// (c) a countdown that dies late (cycle limit matters): only where TLC can follow it
			small := name == "nopnano" || name == "nop256" || name == "noptiny"
			if small || *long {
				// two nested countdowns: about n1 + (M+2) cycles, i.e. later than a tenth of every documented cycle limit
				cd := cfg
				n1 := d.m / 2
				if small {
					n1 = d.m / 4
				}
				cd.Items = []item{insItem("DJN", "", "", 0, "#", n1), insItem("DJN", "", "", -1, "#", 2), insItem("DAT", "", "#", 0, "#", 0)}
				f.F = d.m / 2
				emit(f, []prog{cd, park(cfg)})
			}
			// (f) the predefined names under the preset: a bomber that aims with each of them at a parked opponent
			for _, nm := range []string{"MINDISTANCE", "MAXLENGTH", "MAXPROCESSES", "CORESIZE"} {
				val := map[string]int{"MINDISTANCE": d.d, "MAXLENGTH": d.l, "MAXPROCESSES": d.p, "CORESIZE": d.m}[nm]
				aim := cfg
				// mov bomb, <name>-7  : hits the cell (val - 7) ahead of the mov
				aim.Items = []item{{T: "ins", Op: "MOV", A: []tok{num(2)}, B: []tok{sym(nm), op("-"), num(7)}, HasB: true}, insItem("JMP", "", "", 0, "", 0), insItem("DAT", "", "#", 0, "#", 0)}
				f3 := f
				f3.F = ((val-7)%d.m + d.m) % d.m
				if f3.F < 3 {
					continue
				}
				emit(f3, []prog{aim, park(cfg)})
			}
			// (e) '94 presets given together with -8: the flag is documented to be ignored, so '94-only code still assembles
			if d.dialect == 94 {
				rs := cfg
				rs.Items = []item{{T: "ins", Op: "NOP", Am: "}", A: []tok{num(0)}, Bm: ">", B: []tok{num(1)}, HasB: true},
					{T: "ins", Op: "DAT", A: []tok{num(0)}, B: []tok{num(0)}, HasB: true}}
				f2 := f
				f2.eight = true
				f2.F = d.m / 2
				emit(f2, []prog{rs, park(cfg)})
			}
			// (d) imp against imp: a tie at the cycle limit on the small presets
			if d.c <= 2560 || (*long && d.c <= 8000) {
				f.F = d.m / 2
				emit(f, []prog{imp(cfg), imp(cfg)})
			}
		}
		// process limit above the core size with a warrior that needs more tasks than cells
		{
			f := cliFlags{s: 100, p: 200, c: 3000, l: 20, F: 50, r: 2}
			cfg := f.progCfg()
			tree := cfg
			var it []item
			for i := 0; i < 7; i++ {
				it = append(it, insItem("SPL", "", "", 1, "", 0)) // 128 tasks arrive at instruction 7 - more than the core has cells
			}
			// the arrival counter (28) reaches zero at the 28th and - after wrapping around the 100-cell core - at the 128th
			// arrival; the second counter lets only the second zero throw the bomb at warrior 2
			it = append(it,
				insItem("DJN", "", "", 3, "", 7),    // 7: c1--, park unless zero
				insItem("DJN", "", "", 2, "", 7),    // 8: c2--, park unless zero
				insItem("MOV", "", "", 8, "", 41),   // 9: bomb cell 50
				insItem("JMP", "", "", 0, "", 0),    // 10: park
				insItem("DAT", "", "#", 0, "#", 0),  // 11
				insItem("DAT", "", "#", 0, "#", 0),  // 12
				insItem("DAT", "", "#", 0, "#", 0),  // 13
				insItem("DAT", "", "#", 0, "#", 28), // 14: c1
				insItem("DAT", "", "#", 0, "#", 2),  // 15: c2
				insItem("DAT", "", "#", 0, "#", 0),  // 16
				insItem("DAT", "", "#", 0, "#", 0))  // 17: bomb
			tree.Items = it
			pk := cfg
			pk.Items = []item{insItem("JMP", "", "", 0, "", 0)}
			emit(f, []prog{tree, pk})
			f2 := f
			f2.p = 100
			emit(f2, []prog{tree, pk})
		}
		// (g) custom core sizes above half of the largest preset: a direct write far beyond 4000 cells (and one that wraps
		// backwards) must land where -s says, i.e. both limits follow the core size given on the command line
		for _, s := range []int{6000, 8192, 4003} {
			for _, tgt := range []int{s - 10, s/2 + 1003, 4001} {
				if tgt >= s-6 || tgt < 12 {
					continue
				}
				f := cliFlags{s: s, p: 4, c: 12, l: 5, F: tgt, r: 1}
				cfg := f.progCfg()
				far := cfg
				far.Items = []item{insItem("MOV", "", "", 2, "", tgt), insItem("JMP", "", "", 0, "", 0), insItem("DAT", "", "#", 0, "#", 0)}
				emit(f, []prog{far, park(cfg)})
				// and the same through a B-indirect pointer reaching backwards
				ind := cfg
				ind.Items = []item{insItem("DAT", "", "#", 0, "#", tgt), insItem("MOV", "", "", 2, "@", -1), insItem("JMP", "", "", 0, "", 0), insItem("DAT", "", "#", 0, "#", 0),
					{T: "end", Toks: []tok{num(1)}}}
				emit(f, []prog{ind, park(cfg)})
			}
		}
	}
	w.close()
	fmt.Printf(`{"invocations":%d,"fixed":%d,"random":%d,"single":%d,"debug_transcripts":%d}`+"\n", id, fixed, random, single, debug)
}

func cmdCLIReplay(args []string) {
	fs := flag.NewFlagSet("cli-replay", flag.ExitOnError)
	in := fs.String("in", "", "ndjson with cli events")
	out := fs.String("out", "", "prefix")
	bin := fs.String("bin", "", "gmars binary")
	fs.Parse(args)
	w := newShardWriter(*out, 1)
	dir, _ := os.MkdirTemp("", "vcli")
	defer os.RemoveAll(dir)
	r := rand.New(rand.NewSource(3))
	for k, e := range readNDJSON(*in) {
		fm := e["flags"].(map[string]interface{})
		f := cliFlags{s: jint(fm["s"]), p: jint(fm["p"]), c: jint(fm["c"]), l: jint(fm["l"]), eight: jint(fm["eight"]) == 1, preset: jstr(fm["preset"]), F: jint(fm["F"]), r: jint(fm["r"]), A: jstr(e["ev"]) == "cliA", D: jstr(e["ev"]) == "cliD"}
		var progs []prog
		for _, p := range e["progs"].([]interface{}) {
			progs = append(progs, jprog(p))
		}
		w.line(runCLI(*bin, dir, f, progs, r, k))
	}
	w.close()
	fmt.Println(`{"replayed":1}`)
}
