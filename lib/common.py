"""Shared machinery for /verif/bin/check: building the harness from /repo's working
tree, running TLC (pool of single-worker JVMs), collecting REJECT lines, reproducing,
known-findings, evidence files and the exit-code contract.

exit 0  everything explored conformed (known findings are printed, not failed)
exit 1  VIOLATION property=<id> replay=<path>   (a reproduced real-code violation)
exit 2  tooling failure (build error, TLC error, vacuous coverage, time-out) - never a violation
"""
import atexit, concurrent.futures, hashlib, json, os, re, shutil, subprocess, sys, tempfile, time

VERIF = os.path.dirname(os.path.dirname(os.path.abspath(__file__)))
REPO = os.environ.get("VERIF_REPO", "/repo")
SPEC = os.path.join(VERIF, "spec")
GOENV = dict(GOFLAGS="-mod=mod", GOPROXY="off", GOSUMDB="off", GOTOOLCHAIN="local", CGO_ENABLED="0")
NCPU = os.cpu_count() or 4


class ToolError(Exception):
    pass


def log(*a):
    print(*a, file=sys.stderr, flush=True)


class Ctx:
    def __init__(self, prop, tier, seed):
        self.prop, self.tier, self.seed = prop, tier, seed
        self.t0 = time.time()
        self.work = tempfile.mkdtemp(prefix="verif-%s-" % prop)
        atexit.register(lambda: shutil.rmtree(self.work, ignore_errors=True))
        self.cov = dict(states=0, transitions=0, traces_validated_against_impl=0, evaluations=0,
                        distinct_nontrivial=0, rule="", samples=[], checker_cmd="", trusted_base=[],
                        exhaustive=False)
        self.assumptions = []
        self.violations = []      # dicts: sig, what, replay
        self.known_hits = []
        self.divergences = []     # model and code differ where the property does not decide (reported, never a violation)
        self.level = "model_checking"
        self._harness = None
        self._tlcn = 0
        self.notes = {}

    quick = property(lambda self: self.tier == "quick")

    def sub(self, name):
        d = os.path.join(self.work, name)
        os.makedirs(d, exist_ok=True)
        return d

    # ---------------------------------------------------------------- harness
    def harness(self, race=False):
        key = "race" if race else "plain"
        if self._harness and key in self._harness:
            return self._harness[key]
        src = os.path.join(VERIF, "harness")
        bdir = self.sub("hbuild-" + key)
        for f in os.listdir(src):
            if f.endswith(".go") or f == "go.mod":
                shutil.copy(os.path.join(src, f), bdir)
        # go.mod's replace points at /repo; honour VERIF_REPO for scratch worktrees
        gm = open(os.path.join(bdir, "go.mod")).read().replace("=> /repo", "=> " + REPO)
        open(os.path.join(bdir, "go.mod"), "w").write(gm)
        shutil.copy(os.path.join(REPO, "go.sum"), bdir)
        out = os.path.join(bdir, "vharness")
        env = dict(os.environ, **GOENV)
        cmd = ["go", "build", "-tags", "verif", "-o", out, "."]
        if race:
            env["CGO_ENABLED"] = "1"
            cmd.insert(2, "-race")
        p = subprocess.run(cmd, cwd=bdir, env=env, capture_output=True, text=True)
        if p.returncode != 0:
            raise ToolError("harness build failed (repo does not compile with -tags verif?):\n" + p.stdout + p.stderr)
        self._harness = self._harness or {}
        self._harness[key] = out
        return out

    def run_harness(self, args, timeout=3600, race=False, env=None, check=True, stdin=None):
        h = self.harness(race)
        e = dict(os.environ, **(env or {}))
        p = subprocess.run([h] + [str(a) for a in args], capture_output=True, text=True, timeout=timeout, env=e, input=stdin)
        if check and p.returncode != 0:
            raise ToolError("harness %s failed (%d):\n%s\n%s" % (args[0], p.returncode, p.stdout[-2000:], p.stderr[-4000:]))
        return p

    def harness_json(self, args, **kw):
        p = self.run_harness(args, **kw)
        last = [l for l in p.stdout.splitlines() if l.strip()][-1]
        return json.loads(last)

    # ---------------------------------------------------------------- TLC
    def tlc(self, module, cfg=None, env=None, workers=1, timeout=1800, args=(), heap="3g", ok_codes=(0,)):
        """Run TLC on spec/<module>.tla in a scratch copy.  Returns dict."""
        self._tlcn += 1
        d = self.sub("tlc%04d" % self._tlcn)
        for f in os.listdir(SPEC):
            if f.endswith(".tla") or f.endswith(".cfg"):
                shutil.copy(os.path.join(SPEC, f), d)
        cfg = cfg or module + ".cfg"
        e = dict(os.environ, **(env or {}))
        e["JAVA_TOOL_OPTIONS"] = "-Xmx%s -Xss512m" % heap
        cmd = ["timeout", str(timeout), "tlc", "-workers", str(workers), "-metadir", os.path.join(d, "md"),
               "-config", cfg] + list(args) + [module + ".tla"]
        t = time.time()
        p = subprocess.run(cmd, cwd=d, env=e, capture_output=True, text=True)
        out = p.stdout + p.stderr
        res = dict(code=p.returncode, out=out, wall=time.time() - t, cmd=" ".join(cmd), dir=d)
        m = re.search(r"(\d+) states generated, (\d+) distinct states found", out)
        res["generated"] = int(m.group(1)) if m else 0
        res["distinct"] = int(m.group(2)) if m else 0
        res["rejects"] = [int(x) for x in re.findall(r'<<"REJECT", (\d+)>>', out)]
        res["prints"] = re.findall(r'^<<"(?!REJECT)([A-Z]+)", (.*)>>$', out, re.M)
        if p.returncode == 124:
            raise ToolError("TLC timed out after %ss: %s" % (timeout, res["cmd"]))
        if p.returncode not in ok_codes:
            raise ToolError("TLC failed (exit %d): %s\n%s" % (p.returncode, res["cmd"], tail_err(out)))
        self.cov["states"] += res["distinct"]
        self.cov["transitions"] += res["generated"]
        shutil.rmtree(os.path.join(d, "md"), ignore_errors=True)
        return res

    def tlc_pool(self, jobs, par=None):
        """jobs: list of kwargs for self.tlc; runs them on a pool; returns results in order."""
        par = par or max(1, min(NCPU, 16))
        with concurrent.futures.ThreadPoolExecutor(par) as ex:
            futs = [ex.submit(self.tlc, **j) for j in jobs]
            return [f.result() for f in futs]

    def validate_shards(self, module, shards, mode=None, extra_env=None, timeout=3600, heap="3g", cfg=None):
        """Trace-validate ndjson shards; returns list of (shard, lineindex(1-based)) rejects."""
        shards = [s for s in shards if os.path.getsize(s) > 0]
        jobs = []
        for s in shards:
            env = dict(VERIF_TRACE=s)
            if mode:
                env["VERIF_MODE"] = mode
            env.update(extra_env or {})
            jobs.append(dict(module=module, cfg=cfg, env=env, timeout=timeout, heap=heap))
        res = self.tlc_pool(jobs)
        rej = []
        for s, r in zip(shards, res):
            n = count_lines(s)
            if r["distinct"] != n + 1:
                raise ToolError("trace %s not fully consumed by TLC (%d states for %d lines):\n%s" % (s, r["distinct"], n, tail_err(r["out"])))
            for i in r["rejects"]:
                rej.append((s, i))
        if res:
            self.cov["checker_cmd"] = res[0]["cmd"]
        return rej

    def binding_selftest(self, module, shards, mode, cfg=None, heap="3g"):
        """Anti-vacuity: corrupt one recorded field in a copy of the head of a shard; TLC must reject that line.
        A trace specification that accepts the corrupted trace is not bound to the code: tool error."""
        for shard in shards:
            lines = []
            with open(shard) as f:
                for i, l in enumerate(f):
                    if i >= 60:
                        break
                    lines.append(json.loads(l))
            for k, e in enumerate(lines):
                c = corrupt_event(e, mode)
                if c is None:
                    continue
                d = self.sub("selftest")
                path = os.path.join(d, "corrupt.ndjson")
                with open(path, "w") as f:
                    for j, x in enumerate(lines):
                        f.write(json.dumps(c if j == k else x) + "\n")
                env = dict(VERIF_TRACE=path)
                if mode:
                    env["VERIF_MODE"] = mode
                saved = (self.cov["states"], self.cov["transitions"])
                r = self.tlc(module, cfg=cfg or module + ".cfg", env=env, heap=heap)
                self.cov["states"], self.cov["transitions"] = saved
                if (k + 1) not in r["rejects"] and any(pr[0] == "NOMEANING" and pr[1].strip() == str(k + 1) for pr in r["prints"]):
                    continue        # the specification gives this line no meaning (nothing is demanded of it): corrupt another one
                if (k + 1) not in r["rejects"]:
                    raise ToolError("binding self-test failed: %s (mode %s) accepted a trace in which line %d was corrupted (%s)" % (module, mode, k + 1, c.get("_corrupted")))
                self.notes["binding_selftest"] = "one recorded field corrupted (%s) in a copy of a trace: rejected at exactly that line" % c.get("_corrupted")
                return
        self.notes["binding_selftest"] = "no corruptible line found"

    # ---------------------------------------------------------------- verdicts
    def sample(self, x, cap=6):
        if len(self.cov["samples"]) < cap:
            self.cov["samples"].append(x)

    def violation(self, sig, what, payload):
        """Record a (reproduced) violation; known findings are filtered here."""
        kf = match_known(self.prop, sig)
        if kf is not None:
            if kf["key"] not in [k["key"] for k in self.known_hits]:
                self.known_hits.append(kf)
            return False
        h = hashlib.sha1((sig + json.dumps(payload, sort_keys=True, default=str)).encode()).hexdigest()[:12]
        rdir = os.path.join(VERIF, "replays", self.prop)
        os.makedirs(rdir, exist_ok=True)
        path = os.path.join(rdir, h + ".json")
        payload = dict(payload, property=self.prop, signature=sig, what=what, tier=self.tier, seed=self.seed)
        json.dump(payload, open(path, "w"), indent=1, default=str)
        self.violations.append(dict(sig=sig, what=what, replay=path))
        return True

    def divergence(self, sig, what):
        """The code does something else than the model predicts, but nothing the property forbids.  Printed and recorded in the
        evidence so that the model can be brought up to date; it never changes the verdict."""
        if len(self.divergences) < 40:
            self.divergences.append(dict(sig=sig, what=what[:600]))

    def finish(self):
        wall = time.time() - self.t0
        cov = dict(self.cov)
        if not cov["samples"]:
            cov["samples"] = ["(no sample recorded)"]
        cov["known_findings_hit"] = [k["key"] for k in self.known_hits]
        cov["model_divergences_without_property_violation"] = self.divergences
        cov.update(self.notes)
        ev = dict(property_id=self.prop, tier=self.tier, seed=self.seed, level=self.level, coverage=cov,
                  assumptions=self.assumptions, wall_s=round(wall, 2), violations=len(self.violations))
        # evidence/ describes the tree in /repo; runs against a scratch worktree (seeded or allowed changes) write elsewhere
        edir = os.path.join(VERIF, "evidence" if os.path.realpath(REPO) == "/repo" and not getattr(self, "is_replay", False) else "evidence_scratch")
        os.makedirs(edir, exist_ok=True)
        json.dump(ev, open(os.path.join(edir, self.prop + ".json"), "w"), indent=1, default=str)
        for k in self.known_hits:
            print("KNOWN-FINDING: property=%s %s" % (self.prop, k["what"]))
        shown = set()
        for dv in self.divergences:
            if dv["sig"] not in shown and len(shown) < 8:
                shown.add(dv["sig"])
                print("MODEL-DIVERGENCE (no property violated) property=%s %s :: %s" % (self.prop, dv["sig"], dv["what"][:300]))
        seen = set()
        for v in self.violations:
            if v["sig"] in seen:
                continue
            seen.add(v["sig"])
            if len(seen) > 20:
                break
            print("VIOLATION property=%s replay=%s" % (self.prop, v["replay"]))
            print("  # %s :: %s" % (v["sig"], v["what"]))
        print("%s %s tier=%s seed=%d states=%d transitions=%d traces=%d evals=%d nontrivial=%d wall=%.1fs" % (
            self.prop, "FAIL" if self.violations else "PASS", self.tier, self.seed, cov["states"], cov["transitions"],
            cov["traces_validated_against_impl"], cov["evaluations"], cov["distinct_nontrivial"], wall))
        sys.stdout.flush()
        return 1 if self.violations else 0


def corrupt_event(e, mode=None):
    """Returns a copy of a recorded event with one observation changed, or None if this kind of line has none."""
    c = json.loads(json.dumps(e))
    ev = c.get("ev")
    if ev is None and "pre" in c and "q" in c and mode == "C11":     # single step, distance predicates only
        m, far = c["M"], (c["pc"] + c["M"] // 2) % c["M"]
        if c["WL"] // 2 >= m // 2 or any(d[0] == far for d in c["d"]):
            return None
        ins = list(c["pre"][far])
        ins[3] = (ins[3] + 1) % m
        c["d"] = c["d"] + [[far, ins]]
        c["_corrupted"] = "a changed cell claimed at distance M/2, beyond floor(W/2)"
        return c
    if ev is None and "pre" in c and "q" in c:                       # single step
        c["q"] = list(c["q"]) + [0]
        c["_corrupted"] = "queue got an extra entry"
        return c
    if ev == "cycle" and c.get("panic") == "" and c.get("cycle", -1) >= 0:
        c["living"] = c.get("living", 0) + 1
        c["_corrupted"] = "living count + 1"
        return c
    if ev == "spawn" and c.get("err") == 0 and c.get("q"):
        c["living"] = c.get("living", 0) + 1
        c["_corrupted"] = "living count + 1"
        return c
    if ev == "prog" and c["res"] and c["res"][0].get("err") == 0 and c["res"][0].get("code"):
        c["res"][0]["code"][0][3] = (c["res"][0]["code"][0][3] + 1) % max(2, c["p"]["M"])
        c["_corrupted"] = "A field of the first assembled instruction + 1"
        return c
    if ev == "out" and c["res"].get("err") == 0 and c["res"].get("code"):
        c["res"]["code"][0][3] = c["M"]
        c["_corrupted"] = "A field set to the core size"
        return c
    if ev == "rt" and c["res"] and c["res"][0]["r"].get("err") == 0:
        c["res"][0]["r"]["start"] += 1
        c["_corrupted"] = "entry point of the first reading + 1"
        return c
    if ev == "load" and c["res"].get("err") == 0 and c["res"].get("code"):
        c["res"]["code"] = c["res"]["code"][:-1]
        c["_corrupted"] = "last instruction of the result dropped"
        return c
    if ev == "listing" and c.get("produced") == 1 and c.get("got", {}).get("code"):
        c["got"]["start"] = c["got"]["start"] + 1
        c["_corrupted"] = "entry point + 1"
        return c
    if ev == "fuzz" and c.get("outcome") == "ok":
        c["leak"] = 1
        c["_corrupted"] = "a surviving goroutine claimed"
        return c
    if mode == "C17D":
        if ev == "cliD" and c.get("parsed") == 1 and c.get("exit") == 0 and any(x[0] == "exec" for x in c.get("log", [])):
            k = max(j for j, x in enumerate(c["log"]) if x[0] == "exec")
            c["log"][k][2] += 1
            c["_corrupted"] = "program counter of the last exec line of the debug transcript + 1"
            return c
        return None
    if ev == "cli" and c.get("out") and c["out"][0]:
        c["out"][0][0] += 1
        c["_corrupted"] = "wins of warrior 1 + 1"
        return c
    if ev == "jobcmp" and len(c.get("results", [])) > 1:
        c["results"][1] = {"err": 9}
        c["_corrupted"] = "one run's result replaced"
        return c
    return None


def tail_err(out, n=25):
    lines = [l for l in out.splitlines() if not l.startswith("Linting") and l.strip()]
    return "\n".join(lines[-n:])


def count_lines(path):
    n = 0
    with open(path, "rb") as f:
        for _ in f:
            n += 1
    return n


def read_line(path, idx):
    """1-based line idx of an ndjson file, parsed (the last line if the file is shorter)."""
    n = count_lines(path)
    if n == 0:
        return {"note": "empty file"}
    idx = max(1, min(idx, n))
    with open(path) as f:
        for i, l in enumerate(f, 1):
            if i == idx:
                return json.loads(l)
    raise ToolError("line %d not in %s" % (idx, path))


def read_lines(path):
    with open(path) as f:
        return [json.loads(l) for l in f if l.strip()]


_known = None


def known_findings():
    global _known
    if _known is None:
        p = os.path.join(VERIF, "known_findings.json")
        _known = json.load(open(p))["findings"] if os.path.exists(p) else []
    return _known


def match_known(prop, sig):
    for k in known_findings():
        if k.get("status") == "open" and prop in k["properties"] and re.search(k["match"], sig):
            return k
    return None


def shard_files(prefix):
    d = os.path.dirname(prefix)
    b = os.path.basename(prefix)
    return sorted(os.path.join(d, f) for f in os.listdir(d) if f.startswith(b + ".") and f.endswith(".ndjson"))


GEN_INFO = {}      # shard path -> (cmd, args, seed) that produced it (generation is deterministic in the seed)


def register_shards(shards, cmd, args, seed):
    for f in shards:
        GEN_INFO[f] = (cmd, [str(a) for a in args], seed)


def rerun_in_context(ctx, shard, idx, mode, module, n, cfg=None):
    """A rejection that does not reproduce in isolation may depend on state the code under test carried over from the
    PRECEDING cases of the same process (a cache, a pool).  Re-run the deterministic generator with the same seed and
    arguments and validate the same shard again: the same line must be rejected again."""
    if shard not in GEN_INFO:
        return None
    cmd, args, seed = GEN_INFO[shard]
    d = ctx.sub("rerun%d" % n)
    prefix = os.path.join(d, os.path.basename(shard).split(".")[0])
    ctx.harness_json([cmd, "-out", prefix, "-seed", seed] + args)
    again = os.path.join(d, os.path.basename(shard))
    r = ctx.tlc(module, cfg=cfg or module + ".cfg", env=dict(VERIF_TRACE=again, VERIF_MODE=mode, VERIF_EXPLAIN="1"), heap="4g")
    if idx not in r["rejects"] or read_line(again, idx) != read_line(shard, idx):
        return None
    return dict(kind="rerun", cmd=cmd, args=args, seed=seed, shard=os.path.basename(shard), line=idx, mode=mode, module=module,
                cfg=cfg or module + ".cfg", event=read_line(again, idx))
