"""Checks for the assembler / loader / tools properties (C03, C05..C10, C16, C17)."""
import json, os, re, subprocess
from common import *


def validate_asm(ctx, shards, mode, module="AsmTrace", heap="4g"):
    shards = [s for s in shards if os.path.getsize(s) > 0]
    jobs = [dict(module=module, cfg=module + ".cfg", env=dict(VERIF_TRACE=s, VERIF_MODE=mode), timeout=3600, heap=heap) for s in shards]
    res = ctx.tlc_pool(jobs)
    rej, nomeaning = [], 0
    for s, r in zip(shards, res):
        n = count_lines(s)
        if r["distinct"] != n + 1:
            raise ToolError("trace %s not fully consumed by TLC (%d states for %d lines):\n%s" % (s, r["distinct"], n, tail_err(r["out"])))
        rej += [(s, i) for i in r["rejects"]]
        nomeaning += sum(1 for p in r["prints"] if p[0] == "NOMEANING")
    if res:
        ctx.cov["checker_cmd"] = res[0]["cmd"]
    return rej, nomeaning


def gen_asm(ctx, cmd, args, name):
    d = ctx.sub(name)
    prefix = os.path.join(d, "a")
    stats = ctx.harness_json([cmd, "-out", prefix, "-seed", ctx.seed] + args)
    return shard_files(prefix), stats


def render_prog_brief(p):
    def toks(ts):
        return " ".join(str(t[1]) if t[0] in ("n", "s") else t[0] for t in ts)
    out = []
    for it in p["items"]:
        if it["t"] == "ins":
            s = " ".join(it["labels"]) + " " + it["op"] + ("." + it["mod"] if it["mod"] else "") + " " + it["am"] + toks(it["a"])
            if it["hasb"]:
                s += ", " + it["bm"] + toks(it["b"])
            out.append(s.strip())
        elif it["t"] == "equ":
            out.append("%s equ %s" % (it["names"][0], toks(it["toks"])))
        elif it["t"] in ("org", "end", "assert"):
            out.append("%s %s" % (it["t"], toks(it["toks"])))
        elif it["t"] == "for":
            out.append("%s %s for %s {%d items}" % (" ".join(it["labels"]), it["ctr"], toks(it["count"]), len(it["body"])))
    return " / ".join(out)


def asm_sig(mode, e):
    if e["ev"] == "prog":
        kinds = sorted(set(str(r.get("err")) for r in e["res"]))
        ops = sorted(set(it["op"] for it in e["p"]["items"] if it["t"] == "ins"))
        return "%s prog dialect=%s results=%s ops=%s" % (mode, e["p"]["dialect"], "/".join(kinds), ",".join(ops)[:60])
    return "%s %s" % (mode, e["ev"])


def reproduce_asm(ctx, mode, rejects, replay_cmd="prog-replay", cap=25, sigfn=asm_sig, module="AsmTrace"):
    seen = {}
    for shard, idx in rejects:
        e = read_line(shard, idx)
        seen.setdefault(sigfn(mode, e), []).append(e)
    n = 0
    for sig, evs in seen.items():
        if n >= cap:
            break
        n += 1
        e = min(evs, key=lambda x: len(json.dumps(x)))
        d = ctx.sub("asmrepro%d" % n)
        src = os.path.join(d, "in.ndjson")
        open(src, "w").write(json.dumps(e) + "\n")
        ctx.run_harness([replay_cmd, "-in", src, "-out", os.path.join(d, "re")])
        re_file = os.path.join(d, "re.000.ndjson")
        r = ctx.tlc(module, cfg=module + ".cfg", env=dict(VERIF_TRACE=re_file, VERIF_MODE=mode, VERIF_EXPLAIN="1"))
        if not r["rejects"]:
            raise ToolError("rejection (%s) did not reproduce when re-executed alone" % sig)
        e2 = read_line(re_file, 1)
        expect = [p for p in r["prints"] if p[0] == "EXPECT"]
        if e2["ev"] == "prog":
            what = "program [%s] (dialect %s, M=%s): gmars results %s ; specification expects %s" % (
                render_prog_brief(e2["p"])[:400], e2["p"]["dialect"], e2["p"]["M"], json.dumps(e2["res"])[:500], (expect[0][1] if expect else "?")[:500])
        else:
            what = "%s: %s" % (e2["ev"], json.dumps(e2)[:800])
        ctx.violation(sig, what, dict(kind="asm", mode=mode, module=module, replay_cmd=replay_cmd, event=e2, texts=e2.get("texts"),
                                      spec_expected=expect[0][1] if expect else None, others_with_same_signature=len(evs) - 1))


def replay_asm(ctx, payload):
    d = ctx.sub("replay")
    src = os.path.join(d, "in.ndjson")
    open(src, "w").write(json.dumps(payload["event"]) + "\n")
    ctx.run_harness([payload.get("replay_cmd", "prog-replay"), "-in", src, "-out", os.path.join(d, "re")])
    module = payload.get("module", "AsmTrace")
    r = ctx.tlc(module, cfg=module + ".cfg", env=dict(VERIF_TRACE=os.path.join(d, "re.000.ndjson"), VERIF_MODE=payload["mode"]))
    ctx.cov["traces_validated_against_impl"] = 1
    ctx.cov["evaluations"] = 1
    if r["rejects"]:
        ctx.violation(payload["signature"], payload["what"], dict(kind="asm", mode=payload["mode"], event=payload["event"]))


def spec_expr_model(ctx):
    r = ctx.tlc("MC_Expr", workers=NCPU, timeout=1200, heap="8g")
    ctx.notes["spec_model_expr"] = "MC_Expr: token-level evaluator = AST evaluator on %d rendered ASTs; regression vectors hold" % r["distinct"]


def check_C03(ctx):
    ctx.cov["rule"] = ("(i) exhaustive default tables: every opcode x A-mode (absent or each) x B-mode (absent, each, or no B operand), both dialects; "
                       "(ii) random abstract programs (1..12 instructions, EQU chains with forward uses, several labels per line, labels inside EQUs, predefined names, arithmetic, ORG/END, metadata, "
                       "core sizes 7..55440, both dialects). Each program is rendered in K surface variants (mnemonic case, blanks/tabs, blank and comment lines, colon suffixes, label respelling, "
                       "EQU lines moved, zero-padded numbers) and assembled by the real CompileWarrior; TLC computes Asm!Meaning from the abstract program and requires every variant to equal it. "
                       "distinct_nontrivial = programs that have a meaning (not rejected by the spec as ill-formed).")
    ctx.cov["trusted_base"] = ["harness renderer (asmgen.go)", "harness/enc.go tables", "TLC", "Json module"]
    spec_expr_model(ctx)
    shards, st = gen_asm(ctx, "asm", ["-shards", 16 if ctx.quick else 64, "-n", 3000 if ctx.quick else 60000, "-variants", 4 if ctx.quick else 8], "c03")
    rej, nom = validate_asm(ctx, shards, "C03")
    total = st["programs"] + st["table_cases"]
    ctx.cov["traces_validated_against_impl"] = total
    ctx.cov["evaluations"] = st["programs"] * st["variants"] + st["table_cases"] * 2
    ctx.cov["distinct_nontrivial"] = total - nom
    ctx.notes.update(programs=st["programs"], table_cases=st["table_cases"], variants=st["variants"], programs_without_meaning=nom)
    ctx.sample(read_line(shards[0], count_lines(shards[0])))
    reproduce_asm(ctx, "C03", rej)


def check_C07(ctx):
    ctx.cov["rule"] = ("random small programs whose operands, EQU bodies, ;assert conditions, ORG/END arguments ((E)%n) and FOR counts ((E)%4) are expressions of depth <= 3 over literals, "
                       "EQU names (bodies carrying their own signs), labels and the four predefined names, with unary sign runs up to length 4, redundant parentheses, / and % of negatives and zero divisors; "
                       "K renderings with optional spaces; core sizes 7..55440 with all four predefined values different. TLC evaluates every expression with the token-level evaluator Expr!Eval "
                       "(itself cross-checked against an AST evaluator in MC_Expr) and requires: same fields mod M, same entry point, same number of FOR copies, and an error exactly when the spec says "
                       "division by zero / failed assert / entry point out of range. distinct_nontrivial = programs with a meaning + programs the spec rejects (error agreement checked).")
    ctx.cov["trusted_base"] = ["harness renderer", "harness/enc.go tables", "TLC", "Json module"]
    spec_expr_model(ctx)
    shards, st = gen_asm(ctx, "asm", ["-mode", "c07", "-shards", 16 if ctx.quick else 64, "-n", 6000 if ctx.quick else 150000, "-variants", 3 if ctx.quick else 4], "c07")
    rej, nom = validate_asm(ctx, shards, "C07")
    ctx.cov["traces_validated_against_impl"] = st["programs"]
    ctx.cov["evaluations"] = st["programs"] * st["variants"]
    ctx.cov["distinct_nontrivial"] = st["programs"]
    ctx.notes.update(programs=st["programs"], programs_the_spec_rejects=nom)
    ctx.sample(read_line(shards[0], 1))
    reproduce_asm(ctx, "C07", rej)


def check_C06(ctx):
    ctx.cov["rule"] = ("inputs: valid programs in arbitrary renderings, entry points at/beyond the end, programs of length L-1, L, L+1, 2L (also through FOR), '94 opcodes/modes/modifiers inside '88 programs, "
                       "illegal '88 operand combinations, extreme operand values (below -CORESIZE, above CORESIZE, +-2^31), token soup, single-token mutations; many configurations, both dialects. "
                       "Every SUCCESSFUL result is logged and TLC evaluates WellFormedW (fields < M, entry point inside the code, length <= MAXLENGTH, defined opcodes/modifiers/modes) and, under '88 rules, "
                       "the independently written Legal88 table. Rejected inputs are never compared with anything. distinct_nontrivial = accepted inputs.")
    ctx.cov["trusted_base"] = ["harness/enc.go tables", "TLC", "Json module"]
    shards, st = gen_asm(ctx, "outs", ["-shards", 16 if ctx.quick else 64, "-n", 20000 if ctx.quick else 400000], "c06")
    rej, _ = validate_asm(ctx, shards, "C06")
    ctx.cov["traces_validated_against_impl"] = st["inputs"]
    ctx.cov["evaluations"] = st["inputs"]
    ctx.cov["distinct_nontrivial"] = st["accepted"]
    ctx.cov["states"] = max(ctx.cov["states"], 1)
    ctx.sample(read_line(shards[0], 1))
    ctx.sample(read_line(shards[1], 2))

    def sig(mode, e):
        return "C06 out dialect=%s %s" % (e["dialect"], "start-outside" if e["res"].get("err") == 0 and e["res"].get("code") is not None and
                                        not (0 <= e["res"]["start"] < max(1, len(e["res"]["code"]))) else ("too-long" if len(e["res"].get("code", [])) > e["L"] else "instruction"))
    reproduce_asm(ctx, "C06", rej, replay_cmd="outs-replay", sigfn=sig)


def check_C08(ctx):
    ctx.cov["rule"] = ("random programs with up to 40 FOR block instances, nesting depth <= 3, counts 0..6 given as literals, sums/products, EQU names or outer counters, counters inside operand arithmetic of "
                       "inner and outer bodies, labelled top-level blocks referenced from their bodies, blocks in sequence, unnamed counters. Each program is assembled in two renderings AND as its manual "
                       "unrolling (harness writes every body count times with the counter replaced by 1..count); TLC computes Asm!Meaning(Asm!Unroll(p)) and requires all three results to equal it. "
                       "distinct_nontrivial = programs with a meaning.")
    ctx.cov["trusted_base"] = ["harness renderer and manual unroller (forgen.go)", "TLC", "Json module"]
    shards, st = gen_asm(ctx, "forasm", ["-shards", 16 if ctx.quick else 64, "-n", 2500 if ctx.quick else 50000], "c08")
    rej, nom = validate_asm(ctx, shards, "C08")
    ctx.cov["traces_validated_against_impl"] = st["programs"]
    ctx.cov["evaluations"] = st["programs"] * 3
    ctx.cov["distinct_nontrivial"] = st["programs"] - nom
    ctx.notes.update(st)
    ctx.sample(read_line(shards[0], 1))
    reproduce_asm(ctx, "C08", rej)
