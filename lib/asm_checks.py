"""Checks for the assembler / loader / tools properties (C03, C05..C10, C16, C17)."""
import json, os, re, subprocess
from common import *


def validate_asm(ctx, shards, mode, module="AsmTrace", heap="4g"):
    shards = [s for s in shards if os.path.getsize(s) > 0]
    jobs = [dict(module=module, cfg=module + ".cfg", env=dict(VERIF_TRACE=s, VERIF_MODE=mode), timeout=3600, heap=heap) for s in shards]
    res = ctx.tlc_pool(jobs)
    rej, nomeaning = [], 0
    for s, r in zip(shards, res):
        n = count_lines(s)
        if r["distinct"] != n + 1:
            raise ToolError("trace %s not fully consumed by TLC (%d states for %d lines):\n%s" % (s, r["distinct"], n, tail_err(r["out"])))
        rej += [(s, i) for i in r["rejects"]]
        nomeaning += sum(1 for p in r["prints"] if p[0] == "NOMEANING")
    if res:
        ctx.cov["checker_cmd"] = res[0]["cmd"]
    return rej, nomeaning


def gen_asm(ctx, cmd, args, name):
    d = ctx.sub(name)
    prefix = os.path.join(d, "a")
    stats = ctx.harness_json([cmd, "-out", prefix, "-seed", ctx.seed] + args)
    register_shards(shard_files(prefix), cmd, args, ctx.seed)
    return shard_files(prefix), stats


def render_prog_brief(p):
    def toks(ts):
        return " ".join(str(t[1]) if t[0] in ("n", "s") else t[0] for t in ts)
    out = []
    for it in p["items"]:
        if it["t"] == "ins":
            s = " ".join(it["labels"]) + " " + it["op"] + ("." + it["mod"] if it["mod"] else "") + " " + it["am"] + toks(it["a"])
            if it["hasb"]:
                s += ", " + it["bm"] + toks(it["b"])
            out.append(s.strip())
        elif it["t"] == "equ":
            out.append("%s equ %s" % (it["names"][0], toks(it["toks"])))
        elif it["t"] in ("org", "end", "assert"):
            out.append("%s %s" % (it["t"], toks(it["toks"])))
        elif it["t"] == "for":
            out.append("%s %s for %s {%d items}" % (" ".join(it["labels"]), it["ctr"], toks(it["count"]), len(it["body"])))
    return " / ".join(out)


def asm_sig(mode, e):
    if e["ev"] == "prog":
        kinds = sorted(set(str(r.get("err")) for r in e["res"]))
        ops = sorted(set(it["op"] for it in e["p"]["items"] if it["t"] == "ins"))
        return "%s prog dialect=%s results=%s ops=%s" % (mode, e["p"]["dialect"], "/".join(kinds), ",".join(ops)[:60])
    return "%s %s" % (mode, e["ev"])


REPS = 12


def reproduce_asm(ctx, mode, rejects, replay_cmd="prog-replay", cap=25, sigfn=asm_sig, module="AsmTrace"):
    seen = {}
    for shard, idx in rejects:
        e = read_line(shard, idx)
        seen.setdefault(sigfn(mode, e), []).append(e)
    n = 0
    for sig, evs in seen.items():
        if n >= cap:
            break
        n += 1
        e = min(evs, key=lambda x: len(json.dumps(x)))
        d = ctx.sub("asmrepro%d" % n)
        src = os.path.join(d, "in.ndjson")
        # the case is re-executed REPS times: a defect that shows only sometimes (map iteration order, scheduling) is still
        # a behaviour of the real code; the first rejected repetition is reported together with the frequency
        open(src, "w").write((json.dumps(e) + "\n") * REPS)
        ctx.run_harness([replay_cmd, "-in", src, "-out", os.path.join(d, "re")])
        re_file = os.path.join(d, "re.000.ndjson")
        r = ctx.tlc(module, cfg=module + ".cfg", env=dict(VERIF_TRACE=re_file, VERIF_MODE=mode, VERIF_EXPLAIN="1"))
        if not r["rejects"]:
            # not reproducible alone: does it reproduce in the context of the preceding cases?
            src_shard, src_idx = next((sh, i) for sh, i in rejects if read_line(sh, i) == e)
            payload = rerun_in_context(ctx, src_shard, src_idx, mode, module, n) if n <= 4 else None
            if payload is None and n > 4:
                continue
            if payload is None:
                raise ToolError("rejection (%s) reproduced neither alone nor when the whole generation was repeated" % sig)
            ctx.violation(sig + " [only after the preceding cases of the same process]",
                          "%s: reproduced by repeating the deterministic generation (seed %s), not when the case is executed alone - "
                          "the code under test carries state over between calls: %s" % (e["ev"], payload["seed"], json.dumps({k: v for k, v in e.items() if k != "texts"})[:700]), payload)
            continue
        first = min(r["rejects"])
        e2 = read_line(re_file, first)
        expect = [p for p in r["prints"] if p[0] == "EXPECT" and p[1].startswith("%d," % first)] or [p for p in r["prints"] if p[0] == "EXPECT"]
        freq = "" if len(r["rejects"]) == REPS else " [in %d of %d repetitions of the same call]" % (len(r["rejects"]), REPS)
        sig += " (not every time)" if freq else ""
        if e2["ev"] == "prog":
            what = "program [%s] (dialect %s, M=%s): gmars results %s ; specification expects %s" % (
                render_prog_brief(e2["p"])[:400], e2["p"]["dialect"], e2["p"]["M"], json.dumps(e2["res"])[:500], (expect[0][1] if expect else "?")[:500])
        else:
            what = "%s: %s" % (e2["ev"], json.dumps(e2)[:800])
        ctx.violation(sig, what + freq, dict(kind="asm", mode=mode, module=module, replay_cmd=replay_cmd, event=e2, texts=e2.get("texts"),
                                      spec_expected=expect[0][1] if expect else None, others_with_same_signature=len(evs) - 1))


def replay_rerun(ctx, payload):
    d = ctx.sub("replay")
    prefix = os.path.join(d, payload["shard"].split(".")[0])
    ctx.harness_json([payload["cmd"], "-out", prefix, "-seed", payload["seed"]] + payload["args"])
    again = os.path.join(d, payload["shard"])
    module = payload["module"]
    r = ctx.tlc(module, cfg=payload.get("cfg") or module + ".cfg", env=dict(VERIF_TRACE=again, VERIF_MODE=payload["mode"]), heap="4g")
    ctx.cov["traces_validated_against_impl"] = count_lines(again)
    ctx.cov["evaluations"] = count_lines(again)
    if payload["line"] in r["rejects"]:
        ctx.violation(payload["signature"], payload["what"], {k: v for k, v in payload.items() if k not in ("signature", "what", "property", "tier")})


def replay_asm(ctx, payload):
    d = ctx.sub("replay")
    src = os.path.join(d, "in.ndjson")
    open(src, "w").write((json.dumps(payload["event"]) + "\n") * REPS)
    ctx.run_harness([payload.get("replay_cmd", "prog-replay"), "-in", src, "-out", os.path.join(d, "re")])
    module = payload.get("module", "AsmTrace")
    r = ctx.tlc(module, cfg=module + ".cfg", env=dict(VERIF_TRACE=os.path.join(d, "re.000.ndjson"), VERIF_MODE=payload["mode"]))
    ctx.cov["traces_validated_against_impl"] = 1
    ctx.cov["evaluations"] = 1
    if r["rejects"]:
        ctx.violation(payload["signature"], payload["what"], dict(kind="asm", mode=payload["mode"], event=payload["event"]))


def spec_asm_model(ctx):
    r = ctx.tlc("MC_Asm", workers=NCPU, timeout=1800, heap="8g")
    ctx.notes["spec_model_asm"] = ("MC_Asm: %d states; Structural (meaning => well-formed, legal '88), EquPlacement, Rename (label/EQU spelling), "
                                   "Tables (default modifiers = second encoding of the ICWS'94 table) hold" % r["distinct"])


def spec_expr_model(ctx):
    r = ctx.tlc("MC_Expr", workers=NCPU, timeout=1200, heap="8g")
    ctx.notes["spec_model_expr"] = "MC_Expr: token-level evaluator = AST evaluator on %d rendered ASTs; regression vectors hold" % r["distinct"]


def check_C03(ctx):
    ctx.cov["rule"] = ("(i) exhaustive default tables: every opcode x A-mode (absent or each) x B-mode (absent, each, or no B operand), both dialects; "
                       "(ii) random abstract programs (1..12 instructions, EQU chains with forward uses, several labels per line, labels inside EQUs, predefined names, arithmetic, ORG/END, metadata, "
                       "core sizes 7..55440, both dialects). Each program is rendered in K surface variants (mnemonic case, blanks/tabs, blank and comment lines, colon suffixes, label respelling, "
                       "EQU lines moved, zero-padded numbers) and assembled by the real CompileWarrior; TLC computes Asm!Meaning from the abstract program and requires every variant to equal it. "
                       "distinct_nontrivial = programs that have a meaning (not rejected by the spec as ill-formed).")
    ctx.cov["trusted_base"] = ["harness renderer (asmgen.go)", "harness/enc.go tables", "TLC", "Json module"]
    spec_expr_model(ctx)
    spec_asm_model(ctx)
    shards, st = gen_asm(ctx, "asm", ["-shards", 16 if ctx.quick else 128, "-n", 3000 if ctx.quick else 200000, "-variants", 4 if ctx.quick else 8], "c03")
    rej, nom = validate_asm(ctx, shards, "C03")
    ctx.binding_selftest("AsmTrace", shards, "C03")
    total = st["programs"] + st["table_cases"]
    ctx.cov["traces_validated_against_impl"] = total
    ctx.cov["evaluations"] = st["programs"] * st["variants"] + st["table_cases"] * 2
    ctx.cov["distinct_nontrivial"] = total - nom
    ctx.notes.update(programs=st["programs"], table_cases=st["table_cases"], variants=st["variants"], programs_without_meaning=nom)
    ctx.sample(read_line(shards[0], count_lines(shards[0])))
    reproduce_asm(ctx, "C03", rej)


def check_C07(ctx):
    ctx.cov["rule"] = ("random small programs whose operands, EQU bodies, ;assert conditions, ORG/END arguments ((E)%n) and FOR counts ((E)%4) are expressions of depth <= 3 over literals, "
                       "EQU names (bodies carrying their own signs), labels and the four predefined names, with unary sign runs up to length 4, redundant parentheses, / and % of negatives and zero divisors; "
                       "K renderings with optional spaces; core sizes 7..55440 with all four predefined values different. TLC evaluates every expression with the token-level evaluator Expr!Eval "
                       "(itself cross-checked against an AST evaluator in MC_Expr) and requires: same fields mod M, same entry point, same number of FOR copies, and an error exactly when the spec says "
                       "division by zero / failed assert / entry point out of range. distinct_nontrivial = programs with a meaning + programs the spec rejects (error agreement checked).")
    ctx.cov["trusted_base"] = ["harness renderer", "harness/enc.go tables", "TLC", "Json module"]
    spec_expr_model(ctx)
    shards, st = gen_asm(ctx, "asm", ["-mode", "c07", "-shards", 16 if ctx.quick else 128, "-n", 6000 if ctx.quick else 500000, "-variants", 3 if ctx.quick else 4], "c07")
    rej, nom = validate_asm(ctx, shards, "C07")
    ctx.binding_selftest("AsmTrace", shards, "C07")
    ctx.cov["traces_validated_against_impl"] = st["programs"]
    ctx.cov["evaluations"] = st["programs"] * st["variants"]
    ctx.cov["distinct_nontrivial"] = st["programs"]
    ctx.notes.update(programs=st["programs"], programs_the_spec_rejects=nom)
    ctx.sample(read_line(shards[0], 1))
    reproduce_asm(ctx, "C07", rej)


def probe_slt88(ctx):
    """Known finding K1 (known_findings.json): the two fixed inputs are run on the real code; while gmars accepts them the
    check prints KNOWN-FINDING and passes, once it refuses them nothing is printed."""
    r = ctx.harness_json(["probe88"])
    ctx.notes["probe_slt_immediate_b_88"] = r
    if r["asm" if ctx.prop == "C06" else "load"]:
        ctx.violation("PROBE slt-immediate-b-88", "ICWS'88: %s is accepted" % ("'slt 1, #2' (CompileWarrior)" if ctx.prop == "C06" else "'SLT $ 1, # 2' (ParseLoadFile)"), dict(kind="probe88"))


def check_C06(ctx):
    ctx.cov["rule"] = ("inputs: valid programs in arbitrary renderings, entry points at/beyond the end, programs of length L-1, L, L+1, 2L (also through FOR), '94 opcodes/modes/modifiers inside '88 programs, "
                       "illegal '88 operand combinations, extreme operand values (below -CORESIZE, above CORESIZE, +-2^31), token soup, single-token mutations; many configurations, both dialects. "
                       "Every SUCCESSFUL result is logged and TLC evaluates WellFormedW (fields < M, entry point inside the code, length <= MAXLENGTH, defined opcodes/modifiers/modes) and, under '88 rules, "
                       "the independently written Legal88 table. Rejected inputs are never compared with anything. distinct_nontrivial = accepted inputs.")
    ctx.cov["trusted_base"] = ["harness/enc.go tables", "TLC", "Json module"]
    spec_asm_model(ctx)
    shards, st = gen_asm(ctx, "outs", ["-shards", 16 if ctx.quick else 128, "-n", 20000 if ctx.quick else 2000000], "c06")
    rej, _ = validate_asm(ctx, shards, "C06")
    ctx.binding_selftest("AsmTrace", shards, "C06")
    ctx.cov["traces_validated_against_impl"] = st["inputs"]
    ctx.cov["evaluations"] = st["inputs"]
    ctx.cov["distinct_nontrivial"] = st["accepted"]
    ctx.cov["states"] = max(ctx.cov["states"], 1)
    ctx.sample(read_line(shards[0], 1))
    ctx.sample(read_line(shards[1], 2))

    def sig(mode, e):
        return "C06 out dialect=%s %s" % (e["dialect"], "start-outside" if e["res"].get("err") == 0 and e["res"].get("code") is not None and
                                        not (0 <= e["res"]["start"] < max(1, len(e["res"]["code"]))) else ("too-long" if len(e["res"].get("code", [])) > e["L"] else "instruction"))
    reproduce_asm(ctx, "C06", rej, replay_cmd="outs-replay", sigfn=sig)
    probe_slt88(ctx)


def check_C08(ctx):
    ctx.cov["rule"] = ("random programs with up to 40 FOR block instances, nesting depth <= 3, counts 0..6 given as literals, sums/products, EQU names or outer counters, counters inside operand arithmetic of "
                       "inner and outer bodies, labelled top-level blocks referenced from their bodies, blocks in sequence, unnamed counters. Each program is assembled in two renderings AND as its manual "
                       "unrolling (harness writes every body count times with the counter replaced by 1..count); TLC computes Asm!Meaning(Asm!Unroll(p)) and requires all three results to equal it. "
                       "distinct_nontrivial = programs with a meaning.")
    ctx.cov["trusted_base"] = ["harness renderer and manual unroller (forgen.go)", "TLC", "Json module"]
    shards, st = gen_asm(ctx, "forasm", ["-shards", 16 if ctx.quick else 128, "-n", 2500 if ctx.quick else 150000], "c08")
    rej, nom = validate_asm(ctx, shards, "C08")
    ctx.binding_selftest("AsmTrace", shards, "C08")
    ctx.cov["traces_validated_against_impl"] = st["programs"]
    ctx.cov["evaluations"] = st["programs"] * 3
    ctx.cov["distinct_nontrivial"] = st["programs"] - nom
    ctx.notes.update(st)
    ctx.sample(read_line(shards[0], 1))
    reproduce_asm(ctx, "C08", rej)


# ------------------------------------------------------------------ C05
def tlc_cases(ctx, cfg, timeout=3000, module="Pipeline"):
    """Run a spec with the Emit invariant; returns path of an ndjson file with the printed cases."""
    r = ctx.tlc(module, cfg=cfg, workers=NCPU, timeout=timeout, heap="16g")
    path = os.path.join(ctx.sub("cases"), cfg + ".ndjson")
    n = 0
    with open(path, "w") as f:
        for m in re.finditer(r'^<<"CASE", "(.*)">>$', r["out"], re.M):
            f.write(m.group(1).replace('\\"', '"').replace("\\\\", "\\") + "\n")
            n += 1
    if n == 0:
        raise ToolError("Pipeline.tla emitted no cases (%s)" % cfg)
    return path, n, r


def run_restartable(ctx, cmd, base_args, out_prefix, total_hint=None, max_restarts=4):
    """Runs a harness command that writes a progress file and may exit 3 after a hung case or crash; restarts after it."""
    progress = out_prefix + ".progress"
    frm = 0
    crashes = []
    for attempt in range(max_restarts + 1):
        p = ctx.run_harness([cmd, "-out", out_prefix, "-progress", progress, "-from", frm] + base_args, check=False, timeout=7200)
        if p.returncode == 0:
            return crashes
        if not os.path.exists(progress):
            raise ToolError("%s failed before its first case: %s" % (cmd, p.stderr[-1500:]))
        idx, ci, b64 = open(progress).read().split(" ", 2)
        crashes.append(dict(id=int(idx), cfg=int(ci), b64=b64, exit=p.returncode, stderr=p.stderr[-800:]))
        frm = int(idx) + 1
        # a crash (a panic in a producer goroutine cannot be recovered) may leave a partial last line behind
        for f in shard_files(out_prefix):
            data = open(f, "rb").read()
            if data and not data.endswith(b"\n"):
                open(f, "wb").write(data[:data.rfind(b"\n") + 1])
    # several cases hung or crashed: stop exploring this family, they are reported (after reproduction) by the caller
    return crashes


def check_C05(ctx):
    ctx.cov["rule"] = ("(1) Pipeline.tla: the FOR expander (one TLA+ case per forStateFn) and the Tokens() consumer as a two-process protocol over token classes; TLC checks NoLeak, Shape and the liveness "
                       "property Terminates (weak fairness) for EVERY token-class sequence up to length L and for every block-shaped input with bodies up to L tokens. "
                       "(2) spec -> code: every input enumerated by TLC is printed with the output the spec determines and replayed through the REAL ForExpand (verif accessor): identical output classes, "
                       "the call returns, no (*forExpander).run / (*lexer).run goroutine survives; the same for the lexer over rune classes (Lexer.tla), the symbol scanner (Scanner.tla) and the parser (Parser.tla, 108 482 inputs) over token classes, each replayed through the real code with exact output comparison. (3) every EQU reference graph on <= 3 names x {operand, ;assert, FOR count, ORG, unused} assembled under a "
                       "deadline: error iff a used name is on a cycle (TLC decides). (4) byte-level fuzz corpus (repository warriors, mutations, soup, invalid UTF-8, NUL, ^Z, CR/LF mixes, unterminated "
                       "lines; FOR counts tamed) x 7 configurations, and EVERY sequence of up to 3 (quick) / 4 (thorough) source tokens over a 26-token alphabet: TLC checks the terminal-state predicate (returned, err xor warrior, no surviving goroutine, within the deadline). "
                       "distinct_nontrivial = TLC-generated cases replayed + graph scenarios + fuzz inputs.")
    ctx.cov["trusted_base"] = ["class <-> token mapping in harness/fx.go", "goroutine accounting by stack frame (runtime.Stack)", "harness clock (deadline)", "TLC"]
    ctx.assumptions.append("'time proportional to input size' is monitored by a per-case deadline of 10 s (inputs <= 8 KB, typical run < 5 ms); the spec proves termination of the modelled loops only")
    sfx = "" if ctx.quick else "_thorough"
    r1 = ctx.tlc("Pipeline", cfg="Pipeline%s.cfg" % sfx, workers=NCPU, timeout=6000, heap="24g")
    r2 = ctx.tlc("Pipeline", cfg="PipelineB%s.cfg" % sfx, workers=NCPU, timeout=6000, heap="24g")
    ctx.notes["spec_model"] = "Pipeline%s.cfg: %d states, PipelineB%s.cfg: %d states; NoLeak, Shape, Terminates hold" % (sfx, r1["distinct"], sfx, r2["distinct"])
    total_cases = 0
    for cfg in ["Pipeline_emit%s.cfg" % sfx, "PipelineB_emit%s.cfg" % sfx]:
        path, n, _ = tlc_cases(ctx, cfg)
        total_cases += n
        outp = os.path.join(ctx.sub("fx"), cfg)
        st = ctx.harness_json(["fx", "-in", path, "-out", outp])
        if st["cases"] != n and st["mismatches"] == 0:
            raise ToolError("fx replayed %d of %d cases" % (st["cases"], n))
        for e in read_lines(outp + ".000.ndjson")[:60]:
            kind = "leak" if e["leak"] else ("hung" if e["hung"] else ("panic" if e["panic"] else "output"))
            if e.get("kind") == "divergence":
                ctx.divergence("C05 forexpand output", "ForExpand on token classes %s: the model gives %s, the code %s (well terminated, no leak)" % ([x["t"] for x in e["in"]], e["want"], e["got"]))
                continue
            if kind == "output":
                kind = "stream not terminated by exactly one eof/err"
            sig = "C05 forexpand %s" % kind
            ctx.violation(sig, "ForExpand on token classes %s: expected %s, got %s (leak=%d %s hung=%d panic=%s)" % (
                [x["t"] for x in e["in"]], e["want"], e["got"], e["leak"], e["frame"], e["hung"], e["panic"]), dict(kind="fx", case=dict(**{"in": e["in"], "out": [
                    (dict(t=w.split(":")[0], v=(w.split(":")[1] if w.startswith("lbl") else int(w.split(":")[1]))) if ":" in w else dict(t=w, v=0)) for w in e["want"]]})))
        ctx.sample(read_line(path, min(n, 4000)))
    # (2b) the lexer: every rune-class input up to L, replayed through the real lexer
    lsfx = "" if ctx.quick else "_thorough"
    path, n, r3 = tlc_cases(ctx, "Lexer_emit%s.cfg" % lsfx, module="Lexer")
    total_cases += n
    outp = os.path.join(ctx.sub("lx"), "lx")
    st = ctx.harness_json(["lx", "-in", path, "-out", outp])
    if st["cases"] != n and st["mismatches"] == 0:
        raise ToolError("lx replayed %d of %d cases" % (st["cases"], n))
    for e in read_lines(outp + ".000.ndjson")[:60]:
        kind = "leak" if e["leak"] else ("hung" if e["hung"] else ("panic" if e["panic"] else "stream not terminated by exactly one eof/err"))
        if e.get("kind") == "divergence":
            ctx.divergence("C05 lexer output", "lexer on runes %s: the model gives %s, the code %s (well terminated, no leak)" % (e["in"], e["want"], e["got"]))
            continue
        ctx.violation("C05 lexer %s" % kind, "lexer on runes %s: expected %s, got %s (leak=%d %s hung=%d panic=%s)" % (e["in"], e["want"], e["got"], e["leak"], e["frame"], e["hung"], e["panic"]),
                      dict(kind="lx", case=dict(**{"in": e["in"], "out": [(w.split(":", 1) if ":" in w else [w, ""]) for w in e["want"]]})))
    ctx.notes["lexer_cases_replayed"] = n
    ctx.sample(read_line(path, min(n, 5000)))
    # (2c) the symbol scanner: every token-class input up to L, replayed through the real ScanInput
    path, n, r4 = tlc_cases(ctx, "Scanner_emit.cfg" if ctx.quick else "Scanner_emit_thorough.cfg", module="Scanner")
    total_cases += n
    outp = os.path.join(ctx.sub("scan"), "sc")
    st = ctx.harness_json(["scan", "-in", path, "-out", outp])
    if st["cases"] != n and st["mismatches"] == 0:
        raise ToolError("scan replayed %d of %d cases" % (st["cases"], n))
    for e in read_lines(outp + ".000.ndjson")[:60]:
        if e.get("kind") == "divergence":
            ctx.divergence("C05 scanner output", "symbol scanner on %s: the model gives %s for=%s err=%s, the code %s for=%s err=%s" % (
                [x["t"] for x in e["in"]], e["want"], e["wantfor"], e["wanterr"], e["got"], e["gotfor"], e["goterr"]))
            continue
        ctx.violation("C05 scanner %s" % ("panic" if e["panic"] else "output"), "symbol scanner on %s: expected %s for=%s err=%s, got %s for=%s err=%s %s" % (
            [x["t"] for x in e["in"]], e["want"], e["wantfor"], e["wanterr"], e["got"], e["gotfor"], e["goterr"], e["panic"]), dict(kind="scan", case=e["case"]))
    ctx.notes["scanner_cases_replayed"] = n
    # (2d) the parser: every token-class input up to L, replayed through the real parser
    path, n, r5 = tlc_cases(ctx, "Parser_emit.cfg" if ctx.quick else "Parser_emit_thorough.cfg", module="Parser")
    total_cases += n
    outp = os.path.join(ctx.sub("parse"), "pa")
    st = ctx.harness_json(["parse", "-in", path, "-out", outp])
    if st["cases"] != n and st["mismatches"] == 0:
        raise ToolError("parse replayed %d of %d cases" % (st["cases"], n))
    for e in read_lines(outp + ".000.ndjson")[:60]:
        if e.get("kind") == "divergence":
            ctx.divergence("C05 parser output", "parser on %s: the model gives %s err=%s, the code %s err=%s" % ([x["v"] or x["t"] for x in e["in"]], e["want"], e["wanterr"], e["got"], e["goterr"]))
            continue
        ctx.violation("C05 parser %s" % ("panic" if e["panic"] else "output"), "parser on %s: expected %s err=%s, got %s err=%s %s" % (
            [x["v"] or x["t"] for x in e["in"]], e["want"], e["wanterr"], e["got"], e["goterr"], e["panic"]), dict(kind="parse", case=e["case"]))
    ctx.notes["parser_cases_replayed"] = n
    # (3) EQU graphs
    egp = os.path.join(ctx.sub("eg"), "eg")
    crashes = run_restartable(ctx, "equgraphs", [], egp)
    # (4) fuzz
    fzp = os.path.join(ctx.sub("fz"), "fz")
    nf = 6000 if ctx.quick else 200000
    crashes += run_restartable(ctx, "fuzz", ["-seed", ctx.seed, "-n", nf, "-repo", REPO], fzp)
    # (5) every sequence of up to L source tokens through the whole pipeline
    tsp = os.path.join(ctx.sub("ts"), "ts")
    crashes += run_restartable(ctx, "fuzz", ["-tokseq", 3 if ctx.quick else 4], tsp)
    nts = count_lines(tsp + ".000.ndjson")
    ctx.notes["token_sequences_assembled"] = nts
    rej, _ = validate_asm(ctx, [egp + ".000.ndjson", fzp + ".000.ndjson", tsp + ".000.ndjson"], "C05")
    ctx.binding_selftest("AsmTrace", [fzp + ".000.ndjson"], "C05")
    neg = count_lines(egp + ".000.ndjson")
    ctx.cov["traces_validated_against_impl"] = total_cases + neg + nf + nts
    ctx.cov["evaluations"] = total_cases + neg + nf + nts
    ctx.cov["distinct_nontrivial"] = total_cases + neg + nf + nts
    ctx.cov["exhaustive"] = True
    ctx.notes.update(tlc_generated_cases_replayed=total_cases, equ_graph_scenarios=neg, fuzz_inputs=nf, crashed_or_hung=len(crashes))
    ctx.sample(read_line(fzp + ".000.ndjson", 30))
    seen = set()
    for shard, idx in rej:
        e = read_line(shard, idx)
        if e["ev"] == "fuzz":
            sig = "C05 fuzz %s%s" % (e["outcome"], " leak " + e["frame"] if e["leak"] else "")
            payload = dict(kind="fuzz", b64=e["b64"], cfg=e["cfg"], event=e)
        else:
            sig = "C05 equgraph site=%s outcome=%s%s" % (e["site"], e["outcome"], " leak" if e["leak"] else "")
            payload = dict(kind="fuzz", b64=__import__("base64").b64encode(e["text"].encode()).decode(), cfg=0, event=e)
        if sig in seen:
            continue
        seen.add(sig)
        # reproduce alone
        o = ctx.run_harness(["fuzz", "-only", b64arg(ctx, payload["b64"]), "-out", os.path.join(ctx.sub("fr%d" % len(seen)), "r")], check=False, timeout=200)
        ctx.violation(sig, "assembling %r (configuration #%d): %s" % (__import__("base64").b64decode(payload["b64"])[:200], e.get("cfg", 0), json.dumps({k: v for k, v in e.items() if k not in ("b64", "text")})), payload)
    for c in crashes[:3]:
        # reproduce alone before believing it
        # (up to 8 attempts: whether a defect shows may depend on Go's randomised map iteration order)
        for attempt in range(1, 9):
            o = ctx.run_harness(["fuzz", "-only", b64arg(ctx, c["b64"]), "-out", os.path.join(ctx.sub("cr%d_%d" % (c["id"], attempt)), "r")], check=False, timeout=300)
            if o.returncode != 0:
                break
        else:
            raise ToolError("a hung/crashed case did not reproduce in 8 attempts when run alone: %r" % c)
        ctx.violation("C05 did-not-return-or-crashed", "assembling %r did not return within the deadline or crashed the process (exit %d; reproduced alone at attempt %d): %s" % (
            __import__("base64").b64decode(c["b64"])[:200], c["exit"], attempt, c["stderr"][-300:]), dict(kind="fuzz", b64=c["b64"], cfg=c["cfg"]))


def b64arg(ctx, b64):
    """the base64 input as a command-line argument, or @file when it is too long for one"""
    if len(b64) < 60000:
        return b64
    path = os.path.join(ctx.sub("b64"), "in%d.b64" % (abs(hash(b64)) % 10**9))
    open(path, "w").write(b64)
    return "@" + path


def replay_fuzz(ctx, payload):
    d = ctx.sub("replay")
    ctx.cov["evaluations"] = 7
    ctx.cov["traces_validated_against_impl"] = 7
    for attempt in range(8):      # a defect that depends on map iteration order or scheduling may need several attempts
        dd = os.path.join(d, "a%d" % attempt)
        os.makedirs(dd, exist_ok=True)
        p = ctx.run_harness(["fuzz", "-only", b64arg(ctx, payload["b64"]), "-out", os.path.join(dd, "r")], check=False, timeout=300)
        f = os.path.join(dd, "r.000.ndjson")
        if p.returncode != 0:
            ctx.violation(payload["signature"], payload["what"], dict(kind="fuzz", b64=payload["b64"], cfg=payload.get("cfg", 0)))
            return
        rej, _ = validate_asm(ctx, [f], "C05")
        if rej:
            ctx.violation(payload["signature"], payload["what"], dict(kind="fuzz", b64=payload["b64"], cfg=payload.get("cfg", 0)))
            return


def replay_lx(ctx, payload):
    d = ctx.sub("replay")
    src = os.path.join(d, "case.ndjson")
    open(src, "w").write(json.dumps(payload["case"]) + "\n")
    st = ctx.harness_json(["lx", "-in", src, "-out", os.path.join(d, "o")])
    ctx.cov["evaluations"] = 1
    ctx.cov["traces_validated_against_impl"] = 1
    if st["mismatches"]:
        ctx.violation(payload["signature"], payload["what"], dict(kind="lx", case=payload["case"]))


def replay_scan(ctx, payload):
    d = ctx.sub("replay")
    src = os.path.join(d, "case.ndjson")
    open(src, "w").write(json.dumps(payload["case"]) + "\n")
    st = ctx.harness_json(["scan", "-in", src, "-out", os.path.join(d, "o")])
    ctx.cov["evaluations"] = 1
    ctx.cov["traces_validated_against_impl"] = 1
    if st["mismatches"]:
        ctx.violation(payload["signature"], payload["what"], dict(kind="scan", case=payload["case"]))


def replay_parse(ctx, payload):
    d = ctx.sub("replay")
    src = os.path.join(d, "case.ndjson")
    open(src, "w").write(json.dumps(payload["case"]) + "\n")
    st = ctx.harness_json(["parse", "-in", src, "-out", os.path.join(d, "o")])
    ctx.cov["evaluations"] = 1
    ctx.cov["traces_validated_against_impl"] = 1
    if st["mismatches"]:
        ctx.violation(payload["signature"], payload["what"], dict(kind="parse", case=payload["case"]))


def replay_loader(ctx, payload):
    d = ctx.sub("replay")
    src = os.path.join(d, "case.ndjson")
    open(src, "w").write(json.dumps(payload["case"]) + "\n")
    st = ctx.harness_json(["loader", "-in", src, "-out", os.path.join(d, "o")])
    ctx.cov["evaluations"] = 1
    ctx.cov["traces_validated_against_impl"] = 1
    if st["mismatches"]:
        ctx.violation(payload["signature"], payload["what"], dict(kind="loader", case=payload["case"]))


def replay_fx(ctx, payload):
    d = ctx.sub("replay")
    src = os.path.join(d, "case.ndjson")
    open(src, "w").write(json.dumps(payload["case"]) + "\n")
    st = ctx.harness_json(["fx", "-in", src, "-out", os.path.join(d, "o")])
    ctx.cov["evaluations"] = 1
    ctx.cov["traces_validated_against_impl"] = 1
    if st["mismatches"]:
        ctx.violation(payload["signature"], payload["what"], dict(kind="fx", case=payload["case"]))


# ------------------------------------------------------------------ C09 C10 C16
def tool_sig(mode, e):
    if e["ev"] == "rt":
        bad = sorted(set("%s:%s" % (r["by"], r["r"].get("err")) for r in e["res"]))
        return "%s rt dialect=%s results=%s" % (mode, e["dialect"], ",".join(bad))
    if e["ev"] == "load":
        return "%s load dialect=%s outcome=%s" % (mode, e["dialect"], e["res"].get("err"))
    return "%s %s dialect=%s via=%s" % (mode, e["ev"], e.get("dialect"), e.get("via"))


def check_C09(ctx):
    ctx.cov["rule"] = ("warriors of length 1..12 (every '94 form in turn; '88 forms steered to the legal ones, TLC's Legal88 decides), fields anywhere in [0,M) printed unsigned or signed, every entry point, "
                       "M in {3,80,8000,8192}; printed in the canonical load-file layout and in seeded layout-only perturbations (letter case, blanks/tabs, comment/blank/metadata lines, trailing comments, CR-LF, "
                       "missing final newline, and combinations); each text is read by ParseLoadFile AND CompileWarrior and TLC requires every result to be exactly W (implied modifiers under '88). "
                       "distinct_nontrivial = perturbed texts read.")
    ctx.cov["trusted_base"] = ["canonical printer and perturbations (harness/tools.go)", "harness/enc.go tables", "TLC"]
    shards, st = gen_asm(ctx, "loadrt", ["-shards", 16 if ctx.quick else 128, "-n", 3000 if ctx.quick else 400000], "c09")
    rej, nom = validate_asm(ctx, shards, "C09", module="ToolTrace")
    ctx.binding_selftest("ToolTrace", shards, "C09")
    ctx.cov["traces_validated_against_impl"] = st["warriors"]
    ctx.cov["evaluations"] = st["texts"] * 2
    ctx.cov["distinct_nontrivial"] = st["texts"] // 2
    ctx.cov["states"] = max(ctx.cov["states"], 1)
    ctx.notes.update(st)
    ctx.notes["warriors_without_meaning"] = nom
    ctx.sample(read_line(shards[0], 1))
    reproduce_asm(ctx, "C09", rej, replay_cmd="rt-replay", sigfn=tool_sig, module="ToolTrace")


def check_C10(ctx):
    ctx.cov["rule"] = ("canonical load files with structured corruptions (deleted/duplicated/transposed fields, out-of-range/negative/malformed numbers, unknown mnemonics, wrong modes, directives in odd places, "
                       "missing commas, joined/split lines, garbage lines, dialect mismatch, unterminated last line) and truncation at EVERY byte offset of canonical files; both dialects, M in {3,80,8000}. "
                       "A generic tokenizer logs the line structure; TLC checks on each recorded read: no panic; a successful read is well-formed, legal under '88, and has exactly one instruction per "
                       "effective non-directive line before the end marker (nothing skipped silently). No predicted acceptance is compared. distinct_nontrivial = accepted texts.")
    ctx.cov["trusted_base"] = ["generic line tokenizer (harness/tools.go lineStructure)", "harness/enc.go tables", "TLC"]
    # spec -> code: the reader as a line machine (Loader.tla); every sequence of up to L line shapes, replayed
    path, ncases, rl = tlc_cases(ctx, "Loader_emit.cfg" if ctx.quick else "Loader_emit_thorough.cfg", module="Loader")
    outp = os.path.join(ctx.sub("loader"), "lo")
    stl = ctx.harness_json(["loader", "-in", path, "-out", outp])
    if stl["cases"] != ncases and stl["mismatches"] == 0:
        raise ToolError("loader replayed %d of %d cases" % (stl["cases"], ncases))
    ctx.notes["spec_model"] = "Loader.tla: %d line sequences; Sound holds; all replayed through ParseLoadFile (reader stricter than the model on %d)" % (ncases, stl["reader_stricter_than_model"])
    ctx.notes["loader_model_divergences"] = stl["divergences"]
    lshard = outp + ".load.000.ndjson"
    if os.path.exists(lshard) and os.path.getsize(lshard) > 0:
        # reads the model does not predict: the property itself decides (ToolTrace!CheckLoad on the real result)
        lrej, _ = validate_asm(ctx, [lshard], "C10", module="ToolTrace")
        reproduce_asm(ctx, "C10", lrej, replay_cmd="rt-replay", sigfn=tool_sig, module="ToolTrace")
    for e in read_lines(outp + ".000.ndjson")[:40]:
        kind = "panic" if e["panic"] else ("accepts what the model refuses" if e["wanterr"] else "result differs")
        if e.get("kind") == "divergence":
            ctx.divergence("C10 loader model %s dialect=%s" % (kind, e["d"]), "load file %r (dialect %s): model %s, real reader %s" % (
                e["text"], e["d"], "error" if e["wanterr"] else (e["want"], e["wantstart"]), "error" if e["goterr"] else (e["got"], e["gotstart"])))
            continue
        ctx.violation("C10 loader model %s dialect=%s" % (kind, e["d"]), "load file %r (dialect %s): model %s, real reader %s" % (
            e["text"], e["d"], "error" if e["wanterr"] else (e["want"], e["wantstart"]), "error" if e["goterr"] else (e["got"], e["gotstart"])), dict(kind="loader", case=e["case"]))
    ctx.sample(read_line(path, min(ncases, 30000)))
    shards, st = gen_asm(ctx, "loadcorrupt", ["-shards", 16 if ctx.quick else 128, "-n", 4000 if ctx.quick else 400000], "c10")
    rej, _ = validate_asm(ctx, shards, "C10", module="ToolTrace")
    ctx.binding_selftest("ToolTrace", shards, "C10")
    ctx.cov["traces_validated_against_impl"] = st["texts"] + ncases
    ctx.cov["evaluations"] = st["texts"] + ncases
    ctx.cov["distinct_nontrivial"] = st["accepted"] + ncases
    ctx.cov["states"] = max(ctx.cov["states"], 1)
    ctx.notes.update(st)
    ctx.sample(read_line(shards[0], 3))
    reproduce_asm(ctx, "C10", rej, replay_cmd="rt-replay", sigfn=tool_sig, module="ToolTrace")
    probe_slt88(ctx)


def check_C16(ctx):
    ctx.cov["rule"] = ("warriors produced by the real assembler or loader of the same dialect (every '94 form in turn, legal '88 forms), fields across [0,M) including M/2, M/2+1 and (M+1)/2, identical neighbouring "
                       "instructions, every entry point, even and odd core sizes {3,7,80,257,8000,8191,8192,55440}; LoadCode() is tokenized generically and TLC applies the pMARS listing reader (Formats!ReadListing) "
                       "and requires the result to equal the warrior, fields mod M. MC_Listing shows ReadListing(ListingOf(W)) = W for every form. distinct_nontrivial = listings read back.")
    ctx.cov["trusted_base"] = ["generic listing tokenizer (harness/tools.go)", "TLC"]
    r = ctx.tlc("MC_Listing", cfg="MC_Listing.cfg" if ctx.quick else "MC_Listing_thorough.cfg", workers=NCPU, timeout=3000, heap="16g")
    ctx.notes["spec_model"] = "MC_Listing: %d states, RoundTrip holds" % r["distinct"]
    shards, st = gen_asm(ctx, "listing", ["-shards", 16 if ctx.quick else 128, "-n", 3000 if ctx.quick else 400000], "c16")
    rej, nom = validate_asm(ctx, shards, "C16", module="ToolTrace")
    ctx.binding_selftest("ToolTrace", shards, "C16")
    ctx.cov["traces_validated_against_impl"] = st["warriors"]
    ctx.cov["evaluations"] = st["warriors"]
    ctx.cov["distinct_nontrivial"] = st["warriors"] - nom
    ctx.notes.update(st)
    ctx.sample(read_line(shards[0], 1))
    reproduce_asm(ctx, "C16", rej, replay_cmd="rt-replay", sigfn=tool_sig, module="ToolTrace")
    # the same listings as the command-line tool prints them: gmars -A on generated warrior files, custom flags and presets;
    # TLC reads each listing back and requires what the file denotes (Asm!Meaning) under the configuration of the flags
    binp = build_gmars(ctx)
    shardsA, stA = gen_asm(ctx, "cli", ["-bin", binp, "-shards", 8, "-n", 150 if ctx.quick else 4000, "-assemble"], "c16cli")
    rejA, nomA = validate_asm(ctx, shardsA, "C16", module="CliTrace", heap="6g")
    ctx.notes["cli_assemble_invocations"] = stA["invocations"]
    ctx.notes["cli_assemble_without_meaning"] = nomA
    ctx.cov["traces_validated_against_impl"] += stA["invocations"]
    ctx.cov["evaluations"] += stA["invocations"]
    ctx.cov["distinct_nontrivial"] += stA["invocations"] - nomA
    confirm_cli(ctx, "C16", rejA, binp)


# ------------------------------------------------------------------ C17
def build_gmars(ctx):
    out = os.path.join(ctx.sub("bin"), "gmars")
    p = subprocess.run(["go", "build", "-o", out, "./cmd/gmars"], cwd=REPO, env=dict(os.environ, **GOENV), capture_output=True, text=True)
    if p.returncode != 0:
        raise ToolError("cmd/gmars does not build:\n" + p.stdout + p.stderr)
    return out


def cli_sig(mode, e):
    f = e["flags"]
    if e["ev"] == "cliA":
        return "%s cli -A %s dialect=%s warriors=%d exit=%s" % (mode, "preset=" + f["preset"] if f["preset"] else "custom", e["progs"][0]["dialect"], len(e["progs"]), e["exit"])
    kind = "preset=" + f["preset"] if f["preset"] else ("random-placement" if f["F"] == 0 and len(e["progs"]) == 2 else "fixed")
    return "C17 cli %s exit=%s%s" % (kind, e["exit"], " p>s" if not f["preset"] and f["p"] > f["s"] else "")


def check_C17(ctx):
    ctx.cov["rule"] = ("the real cmd/gmars binary (built from the repository) is run on generated warrior files (renderings of abstract programs, so Asm!Meaning knows what they denote) over flag vectors "
                       "-s -p -c -l -8 -F -r (core sizes from 3*len+1 up, process limits below and above the core size, 1-2 warriors, 1..12 rounds) and over every preset with scenarios whose outcome depends on the "
                       "read/write limits, the cycle limit and the process limit. TLC derives the configuration from the flags (presets as documented in README), runs MARS!RunW at the fixed placement and "
                       "requires both result lines to equal the tallies; for random placement it checks wins1+wins2+ties = rounds, ties1 = ties2, exit status 0. "
                       "distinct_nontrivial = invocations whose warriors have a meaning.")
    ctx.cov["trusted_base"] = ["warrior renderer", "integer tokenization of the result lines", "README preset table transcribed in CliTrace.tla", "TLC"]
    ctx.assumptions.append("battles TLC can follow: cores <= 8192 cells; battles of thousands of cycles on the 8000-cell presets only in the thorough tier")
    binp = build_gmars(ctx)
    args = ["-bin", binp, "-shards", 16, "-n", 150 if ctx.quick else 1500]
    if not ctx.quick:
        args.append("-long")
    shards, st = gen_asm(ctx, "cli", args, "c17")
    rej, nom = validate_asm(ctx, shards, "C17", module="CliTrace", heap="6g")
    ctx.binding_selftest("CliTrace", shards, "C17", heap="6g")
    st1 = ctx.notes.get("binding_selftest")
    ctx.binding_selftest("CliTrace", shards, "C17D", heap="6g")       # ... and one line of a debug transcript
    ctx.notes["binding_selftest"] = "%s; debug transcript: %s" % (st1, ctx.notes.get("binding_selftest"))
    ctx.cov["traces_validated_against_impl"] = st["invocations"]
    ctx.cov["evaluations"] = st["invocations"]
    ctx.cov["distinct_nontrivial"] = st["invocations"] - nom
    ctx.notes.update(st)
    ctx.notes["invocations_without_meaning"] = nom
    ctx.sample({k: v for k, v in read_line(shards[0], 1).items() if k != "raw"})
    confirm_cli(ctx, "C17", rej, binp)


def confirm_cli(ctx, prop, rej, binp):
    seen = {}
    for shard, idx in rej:
        e = read_line(shard, idx)
        seen.setdefault(cli_sig(prop, e), []).append(e)
    for n, (sig, evs) in enumerate(list(seen.items())[:12]):
        e = evs[0]
        d = ctx.sub("clirepro%s%d" % (prop, n))
        src = os.path.join(d, "in.ndjson")
        open(src, "w").write(json.dumps(e) + "\n")
        ctx.run_harness(["cli-replay", "-in", src, "-out", os.path.join(d, "re"), "-bin", binp])
        rf = os.path.join(d, "re.000.ndjson")
        rej2, _ = validate_asm(ctx, [rf], "C17", module="CliTrace", heap="6g")
        e2 = read_line(rf, 1)
        if not rej2 and not (e["ev"] == "cli" and e["flags"]["F"] == 0 and len(e["progs"]) == 2):
            raise ToolError("rejection (%s) did not reproduce" % sig)
        what = "gmars %s%s on %s printed %r (exit %s, stderr %r)" % ("-A " if e["ev"] == "cliA" else "", " ".join("-%s %s" % (k, v) for k, v in e["flags"].items() if v not in (0, "")),
                                                               [render_prog_brief(p)[:160] for p in e["progs"]], e2["raw"], e2["exit"], e2["stderr"][:200])
        ctx.violation(sig, what, dict(kind="cli", event=e, others_with_same_signature=len(evs) - 1))


def replay_cli(ctx, payload):
    binp = build_gmars(ctx)
    d = ctx.sub("replay")
    src = os.path.join(d, "in.ndjson")
    open(src, "w").write(json.dumps(payload["event"]) + "\n")
    ctx.run_harness(["cli-replay", "-in", src, "-out", os.path.join(d, "re"), "-bin", binp])
    rej, _ = validate_asm(ctx, [os.path.join(d, "re.000.ndjson")], "C17", module="CliTrace", heap="6g")
    ctx.cov["traces_validated_against_impl"] = 1
    ctx.cov["evaluations"] = 1
    if rej:
        ctx.violation(payload["signature"], payload["what"], dict(kind="cli", event=payload["event"]))
