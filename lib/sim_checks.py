"""Checks for the simulator properties (C01, C11, ...)."""
import json, os, re, shutil, subprocess
from common import *

INS_OP = ["DAT","MOV","ADD","SUB","MUL","DIV","MOD","CMP","SEQ","SNE","SLT","JMP","JMZ","JMN","DJN","SPL","NOP"]
INS_MOD = ["F","A","B","AB","BA","X","I"]
INS_AM = ["$","#","*","@","{","<","}",">"]


def ins_str(t):
    n = lambda tab, k: tab[k] if 0 <= k < len(tab) else "?%d" % k
    return "%s.%s %s%d, %s%d" % (n(INS_OP, t[0]), n(INS_MOD, t[1]), n(INS_AM, t[2]), t[3], n(INS_AM, t[4]), t[5])


def step_sig(e):
    if e.get("sparse") == 1:
        t = next((c[1] for c in e["pre"] if c[0] == e["pc"]), [0, 0, 0, 0, 0, 0])
    else:
        t = e["pre"][e["pc"]]
    lim = "nolimit" if e["RL"] == e["M"] and e["WL"] == e["M"] else "limited"
    n = lambda tab, k: tab[k] if 0 <= k < len(tab) else "?"
    if e.get("panic"):
        return "step panic %s.%s %s %s %s" % (n(INS_OP, t[0]), n(INS_MOD, t[1]), n(INS_AM, t[2]), n(INS_AM, t[4]), lim)
    return "step %s.%s %s %s %s" % (n(INS_OP, t[0]), n(INS_MOD, t[1]), n(INS_AM, t[2]), n(INS_AM, t[4]), lim)


def reproduce_steps(ctx, mode, rejects, cap=40):
    """Re-execute rejected step events on the real code and re-validate each alone."""
    by_sig = {}
    for shard, idx in rejects:
        e = read_line(shard, idx)
        by_sig.setdefault(step_sig(e), []).append(e)
    n = 0
    for sig, evs in by_sig.items():
        if n >= cap:
            break
        n += 1
        e = evs[0]
        d = ctx.sub("repro%d" % n)
        src = os.path.join(d, "in.ndjson")
        open(src, "w").write(json.dumps(e) + "\n")
        ctx.run_harness(["steps-replay", "-in", src, "-out", os.path.join(d, "re")])
        re_file = os.path.join(d, "re.000.ndjson")
        r = ctx.tlc("StepTrace", env=dict(VERIF_TRACE=re_file, VERIF_MODE=mode, VERIF_EXPLAIN="1"))
        if not r["rejects"]:
            src_shard, src_idx = next((sh, i) for sh, i in rejects if read_line(sh, i) == e)
            payload = rerun_in_context(ctx, src_shard, src_idx, mode, "StepTrace", n) if n <= 4 else None
            if payload is None and n > 4:
                continue
            if payload is None:
                raise ToolError("rejection of %s reproduced neither alone nor when the whole generation was repeated" % sig)
            ctx.violation(sig + " [only after the preceding cases of the same process]",
                          "step reproduced by repeating the deterministic generation (seed %s), not when executed alone - the code under test carries state over between simulators" % payload["seed"], payload)
            continue
        e2 = read_line(re_file, 1)
        expect = [p for p in r["prints"] if p[0] == "EXPECT"]
        what = "executing %s at pc=%d on M=%d RL=%d WL=%d P=%d: observed queue %s diff %s%s" % (
            ins_str(next((c[1] for c in e["pre"] if c[0] == e["pc"]), [0, 0, 0, 0, 0, 0]) if e.get("sparse") == 1 else e["pre"][e["pc"]]), e["pc"], e["M"], e["RL"], e["WL"], e["P"], e2["q"],
            [(a, ins_str(i)) for a, i in e2["d"]], (" panic=" + e2["panic"]) if e2["panic"] else "")
        ctx.violation(sig, what, dict(kind="step", mode=mode, event=e2, spec_expected=expect[0][1] if expect else None,
                                      others_with_same_signature=len(evs) - 1,
                                      replay_cmd="bin/check %s --replay <this file>" % ctx.prop))


def gen_steps(ctx, args, name="steps"):
    d = ctx.sub(name)
    prefix = os.path.join(d, "s")
    stats = ctx.harness_json(["steps", "-out", prefix, "-seed", ctx.seed] + args)
    register_shards(shard_files(prefix), "steps", args, ctx.seed)
    return shard_files(prefix), stats


def spec_step_model(ctx):
    """Spec |= property (small scope, exhaustive) for the single-task interpreter."""
    cfg = "MC_Step.cfg" if ctx.quick else "MC_Step_thorough.cfg"
    r = ctx.tlc("MC_Step", cfg=cfg, workers=NCPU, timeout=3000, heap="24g")
    ctx.notes["spec_model"] = "%s: %d states, all invariants hold" % (cfg, r["distinct"])
    # anti-vacuity: the negations of the bounds' antecedents must be violated (witnesses exist in the model)
    saved = (ctx.cov["states"], ctx.cov["transitions"])
    for probe in ("VacWrite", "VacRead", "VacFold"):
        v = ctx.tlc("MC_Step", cfg="MC_Step_%s.cfg" % probe, workers=4, timeout=900, heap="4g", ok_codes=(0, 12))
        if v["code"] != 12:
            raise ToolError("vacuity probe %s was not violated: the model never reaches the situation the bound talks about" % probe)
    ctx.cov["states"], ctx.cov["transitions"] = saved
    ctx.notes["vacuity_probes"] = "VacWrite, VacRead, VacFold each violated as required (a write at exactly floor(W/2), a jump at exactly floor(R/2), a step where folding changes the outcome)"
    return r


def check_C01(ctx):
    ctx.cov["rule"] = ("every one of the 7616 opcode x modifier x A-mode x B-mode forms is executed at pc on real gmars "
                       "(whole core installed through AddWarrior/SpawnWarrior, one RunCycle), with biased a/b values, limit pairs and "
                       "neighbour cells; thorough additionally enumerates ALL (a,b) and ALL (RL,WL) for M in {3,4}. "
                       "distinct_nontrivial = steps executed under a limit smaller than the core (fold can matter).")
    ctx.cov["trusted_base"] = ["harness/enc.go instruction table", "generic core diff in harness/steps.go", "TLC", "CommunityModules Json"]
    spec_step_model(ctx)
    if ctx.quick:
        shards, st = gen_steps(ctx, ["-shards", 16, "-M", "5,8", "-reps", 3, "-big", "70001", "-bign", 48])
    else:
        shards, st = gen_steps(ctx, ["-shards", 64, "-M", "3,5,7,8,11,16,32", "-reps", 6, "-exhaustive", "3,4", "-big", "70001,100003,300007", "-bign", 120])
        s2, st2 = gen_steps(ctx, ["-shards", 8, "-M", "8000", "-reps", 1], name="big")
        # big cores: only a sample of forms (files are large)
        shards += s2
        for k in st:
            st[k] += st2[k]
    rej = ctx.validate_shards("StepTrace", shards, mode="C01", heap="4g")
    ctx.binding_selftest("StepTrace", shards, "C01")
    ctx.cov["traces_validated_against_impl"] = st["steps"]
    ctx.cov["evaluations"] = st["steps"]
    ctx.cov["distinct_nontrivial"] = st["limited"]
    ctx.notes["steps_died"] = st["died"]
    ctx.notes["steps_two_pushes"] = st["twopush"]
    ctx.sample(read_line(shards[0], 1))
    ctx.sample(read_line(shards[-1], 1))
    reproduce_steps(ctx, "C01", rej)
    check_insitu(ctx, "C01")


def prove_fold_lemma(ctx):
    """TLAPS: unbounded proof of the folding lemma (any core size, any limit <= core, any pointer)."""
    d = ctx.sub("tlaps")
    shutil.copy(os.path.join(SPEC, "FoldLemma.tla"), d)
    p = subprocess.run(["timeout", "600", "tlapm", "--threads", "8", "FoldLemma.tla"], cwd=d, capture_output=True, text=True)
    out = p.stdout + p.stderr
    m = re.search(r"All (\d+) obligations? proved", out)
    if p.returncode != 0 or not m:
        raise ToolError("TLAPS did not prove FoldLemma.tla:\n" + out[-1500:])
    ctx.notes["tlaps_fold_lemma"] = "FoldLemma.tla: all %s obligations proved by tlapm (FoldBound, FoldNoLimit, FoldIsFoldR, FoldLemma for unbounded M, lim, p)" % m.group(1)
    ctx.cov["obligations"] = int(m.group(1))
    ctx.cov["discharged"] = int(m.group(1))


def prove_step_safe(ctx):
    """TLAPS: for EVERY core size and every pair of limits the reference interpreter stays inside the data model."""
    d = ctx.sub("tlaps_stepsafe")
    for f in ("StepSafe.tla", "MARSCore.tla"):
        shutil.copy(os.path.join(SPEC, f), d)
    p = subprocess.run(["timeout", "3000", "tlapm", "--threads", str(NCPU), "StepSafe.tla"], cwd=d, capture_output=True, text=True)
    out = p.stdout + p.stderr
    m = re.search(r"All (\d+) obligations? proved", out)
    if p.returncode != 0 or not m:
        raise ToolError("TLAPS did not prove StepSafe.tla:\n" + out[-1500:])
    ctx.notes["tlaps_step_safe"] = ("StepSafe.tla: all %s obligations proved by tlapm (ArithSafe, OperandSafe, PostIncSafe, PreludeSafe, ExecSafe for every opcode, "
                                    "FoldAddr, ExecTaskSafe: for unbounded M and limits 1..M a task leaves a well-typed core and queues at most two addresses)" % m.group(1))
    ctx.cov["obligations"] = ctx.cov.get("obligations", 0) + int(m.group(1))
    ctx.cov["discharged"] = ctx.cov.get("discharged", 0) + int(m.group(1))


def check_C11(ctx):
    ctx.cov["rule"] = ("real single steps with every limit pair 1<=R,W<=M (M<=16; sampled above) and operands placed just inside/outside "
                       "floor(W/2), floor(R/2); TLC evaluates the three C11 predicates on the RECORDED pre/post states "
                       "(changed cells within floor(W/2); successors pc+1/pc+2 or within floor(R/2); R=W=M equals the no-limit step). "
                       "distinct_nontrivial = steps with R<M or W<M.")
    ctx.cov["trusted_base"] = ["harness/enc.go instruction table", "generic core diff in harness/steps.go", "TLC", "CommunityModules Json", "tlapm + Z3 (FoldLemma)"]
    spec_step_model(ctx)
    prove_fold_lemma(ctx)
    if ctx.quick:
        shards, st = gen_steps(ctx, ["-shards", 16, "-M", "8,13", "-reps", 0, "-limits"])
        s2, st2 = gen_steps(ctx, ["-shards", 8, "-M", "6", "-reps", 1], name="forms")
    else:
        shards, st = gen_steps(ctx, ["-shards", 48, "-M", "8,9,16,31,64", "-reps", 0, "-limits"])
        s2, st2 = gen_steps(ctx, ["-shards", 16, "-M", "5,6,16", "-reps", 4, "-exhaustive", "3"], name="forms")
    shards += s2
    for k in st:
        st[k] += st2[k]
    rej = ctx.validate_shards("StepTrace", shards, mode="C11", heap="4g")
    ctx.binding_selftest("StepTrace", [s for s in shards if "forms" in s] or shards, "C11")
    # "no operand FETCH uses a cell farther than floor(R/2)": a fetch is observable only through its effect, so this clause is
    # decided by comparing the same limit-focused steps with the reference interpreter, whose fetches are folded by construction
    rej_sem = ctx.validate_shards("StepTrace", shards, mode="C01", heap="4g")
    rej_sem = [x for x in rej_sem if x not in rej]
    ctx.cov["traces_validated_against_impl"] = st["steps"]
    ctx.cov["evaluations"] = st["steps"]
    ctx.cov["distinct_nontrivial"] = st["limited"]
    ctx.sample(read_line(shards[0], 1))
    reproduce_steps(ctx, "C11", rej)
    reproduce_steps(ctx, "C01", rej_sem, cap=10)
    check_insitu(ctx, "C11")


def replay_step(ctx, payload):
    d = ctx.sub("replay")
    src = os.path.join(d, "in.ndjson")
    open(src, "w").write(json.dumps(payload["event"]) + "\n")
    ctx.run_harness(["steps-replay", "-in", src, "-out", os.path.join(d, "re")])
    r = ctx.tlc("StepTrace", env=dict(VERIF_TRACE=os.path.join(d, "re.000.ndjson"), VERIF_MODE=payload["mode"], VERIF_EXPLAIN="1"))
    ctx.cov["traces_validated_against_impl"] = 1
    ctx.cov["evaluations"] = 1
    if r["rejects"]:
        ctx.violation(payload["signature"], payload["what"], dict(kind="step", mode=payload["mode"], event=read_line(os.path.join(d, "re.000.ndjson"), 1)))



# ------------------------------------------------------------------ in-situ step traces (hook verif_trace.go in RunCycle)
def insitu_lines(ctx, which, d):
    """Record every task executed by (a) the repository's own test suite or (b) harness battles through the guarded hook
    in RunCycle (-tags verif, VERIF_STEP_TRACE), and re-encode the lines for StepTrace.tla."""
    raw = os.path.join(d, which + ".raw")
    if os.path.exists(raw):
        os.remove(raw)
    if which == "suite":
        e = dict(os.environ, GOFLAGS="-mod=mod", GOPROXY="off", GOSUMDB="off", GOTOOLCHAIN="local", VERIF_STEP_TRACE=raw)
        p = subprocess.run(["go", "test", "-tags", "verif", "-vet=off", "-count=1", "."], cwd=REPO, env=e, capture_output=True, text=True, timeout=1200)
        ctx.notes["repository_suite_with_hooks"] = "passed" if p.returncode == 0 else "exit %d: %s" % (p.returncode, (p.stdout + p.stderr)[-300:])
    else:
        ctx.run_harness(["battles", "-out", os.path.join(d, "unused"), "-seed", ctx.seed, "-shards", 1, "-n", 150 if ctx.quick else 1500, "-twin=false"], env=dict(VERIF_STEP_TRACE=raw))
    if not os.path.exists(raw):
        raise ToolError("the step-trace hook wrote nothing for %s (is verif_trace.go built in?)" % which)
    st = ctx.harness_json(["suite-convert", "-in", raw, "-out", os.path.join(d, which), "-shards", 8])
    os.remove(raw)
    return shard_files(os.path.join(d, which)), st


def insitu_sig(e):
    pc = e["pc"]
    t = None
    if e.get("sparse") == 1:
        t = next((c[1] for c in e["pre"] if c[0] == pc), [0, 0, 0, 0, 0, 0])
    elif 0 <= pc < len(e["pre"]):
        t = e["pre"][pc]
    n = lambda tab, k: tab[k] if 0 <= k < len(tab) else "?"
    return "in-situ step %s.%s %s %s M=%d%s" % (n(INS_OP, t[0]), n(INS_MOD, t[1]), n(INS_AM, t[2]), n(INS_AM, t[4]), e["M"],
                                               " with other tasks queued" if e.get("qpre") else "") if t else "in-situ step pc outside core"


def insitu_confirm(ctx, which, mode, e, tag):
    """The rejected line must be produced again when the recording is repeated, and be rejected when validated alone."""
    d = ctx.sub("insitu_re_%s_%s" % (which, tag))
    shards, _ = insitu_lines(ctx, which, d)
    key = json.dumps(e, sort_keys=True)
    found = False
    for sh in shards:
        with open(sh) as f:
            for l in f:
                if json.dumps(json.loads(l), sort_keys=True) == key:
                    found = True
                    break
        if found:
            break
    if not found:
        return None
    one = os.path.join(d, "one.ndjson")
    open(one, "w").write(json.dumps(e) + "\n")
    r = ctx.tlc("StepTrace", env=dict(VERIF_TRACE=one, VERIF_MODE=mode, VERIF_EXPLAIN="1"))
    if not r["rejects"]:
        return None
    expect = [p for p in r["prints"] if p[0] == "EXPECT"]
    return expect[0][1] if expect else "(rejected)"


def check_insitu(ctx, mode):
    """C01/C11 on steps recorded inside RunCycle: the repository's test suite and harness battles (queues with several tasks)."""
    total = 0
    for which in ("suite", "battles"):
        d = ctx.sub("insitu_" + which)
        shards, st = insitu_lines(ctx, which, d)
        ctx.notes["insitu_" + which] = st
        total += st["steps"]
        if which == "suite" and st["steps"] < 200:
            raise ToolError("the repository's suite produced only %d hooked steps" % st["steps"])
        rej = ctx.validate_shards("StepTrace", shards, mode=mode, heap="4g")
        by_sig = {}
        for sh, i in rej:
            e = read_line(sh, i)
            by_sig.setdefault(insitu_sig(e), e)
        for n, (sig, e) in enumerate(list(by_sig.items())[:8]):
            exp = insitu_confirm(ctx, which, mode, e, str(n))
            if exp is None:
                raise ToolError("rejected in-situ step (%s) was not reproduced when the recording was repeated" % sig)
            small = dict(e, pre="(%d cells)" % len(e["pre"])) if len(e["pre"]) > 64 else e
            ctx.violation(sig, "step recorded inside RunCycle (%s): pc=%d qpre=%s observed queue %s diff %s; the specification expects %s" % (
                which, e["pc"], e.get("qpre"), e["q"], e["d"], exp), dict(kind="insitu", which=which, mode=mode, event=e, shown=small))
    ctx.cov["traces_validated_against_impl"] = ctx.cov.get("traces_validated_against_impl", 0) + total
    ctx.cov["evaluations"] = ctx.cov.get("evaluations", 0) + total


def replay_insitu(ctx, payload):
    exp = insitu_confirm(ctx, payload["which"], payload["mode"], payload["event"], "replay")
    ctx.cov["traces_validated_against_impl"] = 1
    ctx.cov["evaluations"] = 1
    if exp is not None:
        ctx.violation(payload["signature"], payload["what"], dict(kind="insitu", which=payload["which"], mode=payload["mode"], event=payload["event"]))


# ------------------------------------------------------------------ battles (C02, C04, C12, C15)
def limit_rejects(rejects, n=240):
    """Confirmation looks at the trace of every rejected line; with tens of thousands of rejections (a change that breaks
    nearly every history) that would take hours, so a spread sample is confirmed: the first ones and evenly spaced later ones."""
    if len(rejects) <= n:
        return rejects
    step = max(1, (len(rejects) - n // 2) // (n // 2))
    return rejects[:n // 2] + rejects[n // 2::step][:n // 2]


_trace_cache = {}


def trace_of(shard, idx):
    key = (shard, idx)
    if key not in _trace_cache:
        _trace_cache[key] = _trace_of(shard, idx)
    return _trace_cache[key]


def _trace_of(shard, idx):
    """the lines of the trace containing 1-based line idx: from its 'new' up to the next 'new'."""
    lines = []
    start = 0
    with open(shard) as f:
        for i, l in enumerate(f, 1):
            if l.startswith('{"ev":"new"'):          # (only the lines of the one trace are parsed)
                if i > idx:
                    break
                lines, start = [], i
            lines.append(l)
    return [json.loads(x) for x in lines], idx - start      # 0-based position of the failing event inside the trace


def battle_sig(mode, tr, pos):
    e = tr[pos]
    s = "%s battle %s" % (mode, e["ev"])
    if e.get("panic") or str(e.get("msg", "")).startswith("panic"):
        s += " panic"
    if e["ev"] == "spawn":
        s += " i=%s" % ("valid" if 0 <= e["i"] < e.get("count", 0) or e.get("count", -1) < 0 else "invalid")
    nw = sum(1 for x in tr if x["ev"] == "add")
    s += " warriors=%d" % nw
    return s


def reproduce_battles(ctx, mode, rejects, reports=False, cap=25, module="BattleTrace"):
    rejects = limit_rejects(rejects)
    seen = {}
    for shard, idx in rejects:
        tr, pos = trace_of(shard, idx)
        sig = battle_sig(mode, tr, pos)
        seen.setdefault(sig, []).append((tr, pos))
    n = 0
    for sig, items in seen.items():
        if n >= cap:
            break
        n += 1
        tr, pos = items[0]
        d = ctx.sub("brepro%d" % n)
        src = os.path.join(d, "in.ndjson")
        with open(src, "w") as f:
            for e in tr:
                f.write(json.dumps(e) + "\n")
        args = ["battles-replay", "-in", src, "-out", os.path.join(d, "re")]
        if reports:
            args.append("-reports")
        if tr[pos]["ev"] == "rot":
            open(src, "w").write(json.dumps(tr[pos]) + "\n")
            args = ["rot-replay", "-in", src, "-out", os.path.join(d, "re")]
        ctx.run_harness(args)
        re_file = os.path.join(d, "re.000.ndjson")
        if True:
            r = ctx.tlc(module, cfg="BattleTrace.cfg", env=dict(VERIF_TRACE=re_file, VERIF_MODE=mode))
            if not r["rejects"]:
                src = [(sh, i) for sh, i in rejects if trace_of(sh, i)[0] == tr]
                payload = rerun_in_context(ctx, src[0][0], src[0][1], mode, module, n, cfg="BattleTrace.cfg") if (src and n <= 4) else None
                if payload is None and n > 4:
                    continue
                if payload is None:
                    raise ToolError("rejection (%s) reproduced neither alone nor when the whole generation was repeated" % sig)
                ctx.violation(sig + " [only after the preceding cases of the same process]",
                              "battle event reproduced by repeating the deterministic generation (seed %s), not when the battle is executed alone - the code under test carries state over between simulators" % payload["seed"], payload)
                continue
            re_tr = read_lines(re_file)
            bad = re_tr[r["rejects"][0] - 1]
        else:
            re_tr, bad = tr, tr[pos]
        e = tr[pos]
        what = "battle on M=%s P=%s C=%s RL=%s WL=%s with %d warrior(s): event #%d '%s' is not a step of the specification (observed: %s)" % (
            tr[0].get("M"), tr[0].get("P"), tr[0].get("C"), tr[0].get("RL"), tr[0].get("WL"),
            sum(1 for x in tr if x["ev"] == "add"), pos, e["ev"], json.dumps({k: v for k, v in bad.items() if k not in ("rec",)})[:600])
        ctx.violation(sig, what, dict(kind="battle", mode=mode, reports=reports, trace=re_tr, failing_index=pos,
                                      others_with_same_signature=len(items) - 1))


def gen_battles(ctx, cmd, args, name):
    d = ctx.sub(name)
    prefix = os.path.join(d, "b")
    stats = ctx.harness_json([cmd, "-out", prefix, "-seed", ctx.seed] + args)
    register_shards(shard_files(prefix), cmd, args, ctx.seed)
    return shard_files(prefix), stats


def spec_battle_model(ctx):
    # the large bounded models run in C02's thorough tier only; the other battle properties share the quick model
    cfg = "MC_Battle_thorough.cfg" if (not ctx.quick and ctx.prop == "C02") else "MC_Battle.cfg"
    r = ctx.tlc("MC_Battle", cfg=cfg, workers=NCPU, timeout=14000, heap="24g")
    ctx.notes["spec_model"] = "%s: %d distinct states; Safe, RefAgree (independent flat scheduler), CycleProps, RunIsStepping, RotInv, EvProps hold" % (cfg, r["distinct"])
    if not ctx.quick and ctx.prop == "C02":
        r3 = ctx.tlc("MC_Battle", cfg="MC_Battle_3w.cfg", workers=NCPU, timeout=7000, heap="24g")
        ctx.notes["spec_model_3_warriors"] = "MC_Battle_3w.cfg: %d distinct states" % r3["distinct"]


def check_C02(ctx):
    ctx.cov["rule"] = ("random battles of 1..4 warriors (imps, dwarfs, SPL fans, suicides, random and hostile code), overlapping/wrapping loads, "
                       "M in 3..64, P in 1..6, C in 1..60, all limit classes, plus battles between the repository's own warriors on the 8000-cell core; every RunCycle of the real simulator is one validated step of MARS!CycleW, "
                       "and a twin simulator driven by Run() must end in the stepped final state. "
                       "distinct_nontrivial = cycles in which a warrior died in a multi-warrior battle + cycles with a queue at the process limit.")
    ctx.cov["trusted_base"] = ["harness/enc.go tables", "generic core diff", "harness stop-rule loop (checked by TLC: ~InProgress at the twin event)", "TLC", "Json module"]
    spec_battle_model(ctx)
    # the process queue itself: ring buffer refines a FIFO (Queue.tla); witness operation sequences replayed on the real queue
    import asm_checks
    qpath, qn, qr = asm_checks.tlc_cases(ctx, "Queue_emit.cfg", module="Queue")
    qout = os.path.join(ctx.sub("queue"), "q")
    qst = ctx.harness_json(["queue", "-in", qpath, "-out", qout])
    ctx.notes["process_queue_model"] = "Queue.tla: %d states, Refines/Bounded/LastOK hold; %d witness operation sequences (%d operations) replayed on the real queue" % (qr["distinct"], qst["cases"], qst["ops"])
    for e in read_lines(qout + ".000.ndjson")[:5]:
        ctx.violation("C02 process queue", "queue of size %d, operations %s (>=0 push, -1 pop): %s" % (e["size"], e["ops"], e["diff"]), dict(kind="queue", case=e["case"]))
    n = 1500 if ctx.quick else 40000
    shards, st = gen_battles(ctx, "battles", ["-shards", 16 if ctx.quick else 64, "-n", n], "bt")
    s2, st2 = gen_battles(ctx, "battles", ["-shards", 8, "-n", n // 3, "-hostile"], "bh")
    shards += s2
    # the repository's own warriors on the standard 8000-cell core (with and without read/write limits)
    s3, st3 = gen_battles(ctx, "battles", ["-shards", 4 if ctx.quick else 16, "-n", 0, "-real", 4 if ctx.quick else 48, "-realcycles", 300 if ctx.quick else 2000, "-repo", REPO], "real")
    shards += s3
    ctx.notes["repository_warrior_battles_on_8000_cells"] = st3["battles"]
    rej = ctx.validate_shards("BattleTrace", shards, mode="C02", heap="4g")
    ctx.binding_selftest("BattleTrace", shards, "C02", cfg="BattleTrace.cfg")
    ctx.cov["traces_validated_against_impl"] = st["battles"] + st2["battles"] + st3["battles"]
    ctx.cov["evaluations"] = st["events"] + st2["events"]
    ctx.cov["distinct_nontrivial"] = st["multi_death"] + st["at_limit"] + st2["multi_death"] + st2["at_limit"]
    for k in ("cycles", "three_plus", "end_cycle", "end_lone", "end_survivor", "mid_death"):
        ctx.notes[k] = st[k] + st2[k]
    ctx.sample(read_lines(shards[0])[:6])
    reproduce_battles(ctx, "C02", rej)


def check_C04(ctx):
    ctx.cov["rule"] = ("(a) NewSimulator over a boundary product of all configuration fields in 0..2^20 (must return an error or a simulator, never panic); "
                       "(b) hostile battles (every field anywhere in [0,M), all forms) under every ACCEPTED configuration, including odd ones Validate lets through; "
                       "TLC evaluates the C04 invariants on the RECORDED state after every call (no equality with the spec is required in this mode). "
                       "distinct_nontrivial = accepted configurations + hostile battles run.")
    ctx.cov["trusted_base"] = ["harness/enc.go tables", "generic core diff", "TLC", "Json module"]
    spec_battle_model(ctx)
    if not ctx.quick:
        prove_step_safe(ctx)      # about 7 minutes
    shards, st = gen_battles(ctx, "configs", ["-shards", 8 if ctx.quick else 96, "-n", 2500 if ctx.quick else 200000], "cf")
    s2, st2 = gen_battles(ctx, "battles", ["-shards", 8 if ctx.quick else 96, "-n", 1000 if ctx.quick else 120000, "-hostile", "-twin=false"], "bh")
    rej = ctx.validate_shards("BattleTrace", shards + s2, mode="C04", heap="6g")
    ctx.cov["traces_validated_against_impl"] = st["configs"] + st2["battles"]
    ctx.cov["evaluations"] = st["configs"] + st["cycles"] + st2["events"]
    ctx.cov["distinct_nontrivial"] = st["accepted"] + st2["battles"]
    ctx.notes.update(configs=st["configs"], accepted=st["accepted"], refused=st["refused"], battles_under_accepted_configs=st["battles"])
    ctx.sample(read_lines(shards[0])[:4])
    reproduce_battles(ctx, "C04", rej)


def check_C12(ctx):
    ctx.cov["rule"] = ("each battle (1..3 warriors, entry point anywhere) is run at shift 0 and at shifts k in {1, M-len, M-1, random} with offsets off+k+j*M (j in 0..2); "
                       "both runs are validated against MARS (mode C02) and TLC checks final_k = Rotate(final_0, k) on the recorded states (survivors, cycle count, core, queues). "
                       "distinct_nontrivial = shifted runs in which a load wraps past the last address or an offset exceeds the core size.")
    ctx.cov["trusted_base"] = ["harness/enc.go tables", "generic core diff", "TLC", "Json module"]
    spec_battle_model(ctx)
    shards, st = gen_battles(ctx, "rot", ["-shards", 16 if ctx.quick else 128, "-n", 600 if ctx.quick else 60000], "rot")
    rej = ctx.validate_shards("BattleTrace", shards, mode="C12", heap="4g")
    rej2 = ctx.validate_shards("BattleTrace", shards, mode="C02", heap="4g")
    ctx.binding_selftest("BattleTrace", shards, "C02", cfg="BattleTrace.cfg")
    ctx.cov["traces_validated_against_impl"] = st["battles"]
    ctx.cov["evaluations"] = st["pairs"]
    ctx.cov["distinct_nontrivial"] = st["wrapped_loads"] + st["offsets_beyond_core"]
    ctx.notes.update(rotation_pairs=st["pairs"], wrapped_loads=st["wrapped_loads"], offsets_beyond_core=st["offsets_beyond_core"])
    ctx.sample(read_lines(shards[0])[:3])
    reproduce_battles(ctx, "C12", rej)
    reproduce_battles(ctx, "C02", rej2)


def check_C15(ctx):
    ctx.cov["rule"] = ("battles as in C02 with a recording listener (grouping reports by task, snapshotting the core at every task boundary) and the real StateRecorder attached; "
                       "TLC checks per task: TaskPop (w,pc) = the spec's executed task; changed cells subset of reported write/inc/dec addresses subset of the reference may-touch set; "
                       "all addresses < M; TaskTerminate iff the task queued nothing; WarriorTerminate iff death; recorder snapshot = last-writer fold of the reference events "
                       "(two admissible orders in the division-by-zero corner; a third of the battles with the recorder switched to record reads as well); spawn and reset reports. distinct_nontrivial = recorded tasks with at least one changed cell... counted as cycles with a death or a full queue.")
    ctx.cov["trusted_base"] = ["harness listener grouping/snapshot code", "harness/enc.go tables", "TLC", "Json module"]
    spec_battle_model(ctx)
    shards, st = gen_battles(ctx, "battles", ["-shards", 16 if ctx.quick else 128, "-n", 1200 if ctx.quick else 120000, "-reports", "-twin=false"], "br")
    s2, st2 = gen_battles(ctx, "battles", ["-shards", 8 if ctx.quick else 64, "-n", 600 if ctx.quick else 60000, "-reports", "-hostile", "-twin=false"], "bh")
    s3, st3 = gen_battles(ctx, "battles", ["-shards", 8 if ctx.quick else 64, "-n", 500 if ctx.quick else 40000, "-reports", "-reads", "-twin=false"], "brd")
    ctx.notes["battles_with_recorder_recording_reads"] = st3["battles"]
    s2 = s2 + s3
    rej = ctx.validate_shards("BattleTrace", shards + s2, mode="C15", heap="4g")
    ctx.binding_selftest("BattleTrace", shards, "C15", cfg="BattleTrace.cfg")
    ctx.cov["traces_validated_against_impl"] = st["battles"] + st2["battles"]
    ctx.cov["evaluations"] = st["events"] + st2["events"]
    ctx.cov["distinct_nontrivial"] = st["multi_death"] + st["at_limit"] + st2["multi_death"] + st2["at_limit"]
    ctx.sample(read_lines(shards[0])[:5])
    reproduce_battles(ctx, "C15", rej, reports=True)


def replay_battle(ctx, payload):
    d = ctx.sub("replay")
    src = os.path.join(d, "in.ndjson")
    with open(src, "w") as f:
        for e in payload["trace"]:
            f.write(json.dumps(e) + "\n")
    args = ["battles-replay", "-in", src, "-out", os.path.join(d, "re")]
    if payload.get("reports"):
        args.append("-reports")
    rots = [e for e in payload["trace"] if e["ev"] == "rot"]
    if payload["mode"] == "C12" and rots:
        open(src, "w").write(json.dumps(rots[-1]) + "\n")
        args = ["rot-replay", "-in", src, "-out", os.path.join(d, "re")]
    ctx.run_harness(args)
    r = ctx.tlc("BattleTrace", env=dict(VERIF_TRACE=os.path.join(d, "re.000.ndjson"), VERIF_MODE=payload["mode"]))
    ctx.cov["traces_validated_against_impl"] = 1
    ctx.cov["evaluations"] = len(payload["trace"])
    if r["rejects"]:
        ctx.violation(payload["signature"], payload["what"], dict(kind="battle", mode=payload["mode"], reports=payload.get("reports"),
                                                                  trace=read_lines(os.path.join(d, "re.000.ndjson"))))


def check_C13(ctx):
    ctx.cov["rule"] = ("ALL call histories up to depth d (quick 4: 132 303 histories, thorough 5) over {AddWarrior(w in pool of 3), SpawnWarrior(i in -1..count+1, off in {0,M-1,M,2M+3}), RunCycle, Run, Reset} "
                       "on a 3-cell core, plus random histories of length 40 on cores 3..8; after EVERY call GetWarrior(-1..count+1), NextPC/Length/Alive/Queue of every warrior, "
                       "GetMem beyond the core, CycleCount/MaxCycles/CoreSize are called and logged; every call runs under recover and Run() under a 3 s watchdog. "
                       "TLC validates each logged call against MARS.tla (BattleTrace mode C13). distinct_nontrivial = distinct histories executed.")
    ctx.cov["trusted_base"] = ["harness/api.go enumeration and logging", "harness/enc.go tables", "TLC", "Json module"]
    cfg = "MC_API.cfg" if ctx.quick else "MC_API_thorough.cfg"
    r = ctx.tlc("MC_API", cfg=cfg, workers=NCPU, timeout=3000, heap="16g")
    ctx.notes["spec_model"] = "%s: complete reachable API state graph, %d distinct states / %d transitions; Safe, ResetEqualsFresh, RunStops, BadSpawnNoChange, AliveSpawnRefused hold" % (cfg, r["distinct"], r["generated"])
    # spec -> code: one witness history per reachable state of the spec, replayed on the real simulator
    import asm_checks
    path, ncases, _ = asm_checks.tlc_cases(ctx, "MC_API_emit.cfg" if ctx.quick else "MC_API_emit_thorough.cfg", module="MC_API")
    outp = os.path.join(ctx.sub("apicases"), "ac")
    stc = ctx.harness_json(["apicases", "-in", path, "-out", outp])
    if stc["cases"] != ncases and stc["mismatches"] == 0:
        raise ToolError("apicases replayed %d of %d cases" % (stc["cases"], ncases))
    ctx.notes["witness_histories_replayed"] = "%d (one per reachable spec state, %d calls)" % (stc["cases"], stc["calls"])
    for e in read_lines(outp + ".000.ndjson")[:10]:
        ctx.violation("C13 witness history %s" % ("panic" if any("panic" in d for d in e["diffs"]) else "state differs"),
                      "TLC-generated history %s: real simulator differs from the specification's state: %s" % (json.dumps(e["hist"]), "; ".join(e["diffs"])[:400]),
                      dict(kind="apicase", case=e["case"]))
    ctx.sample(read_line(path, min(ncases, 20000)))
    if ctx.quick:
        shards, st = gen_battles(ctx, "api", ["-shards", 32, "-depth", 4, "-random", 400], "api")
    else:
        shards, st = gen_battles(ctx, "api", ["-shards", 192, "-depth", 5, "-random", 20000], "api")
    rej = ctx.validate_shards("BattleTrace", shards, mode="C13", heap="5g")
    ctx.cov["traces_validated_against_impl"] = st["histories"] + stc["cases"]
    ctx.cov["evaluations"] = st["events"] + stc["calls"]
    ctx.cov["distinct_nontrivial"] = st["histories"] + stc["cases"]
    ctx.cov["exhaustive"] = True
    ctx.notes["hung_run_calls"] = st["hung"]
    ctx.sample(read_lines(shards[0])[:5])
    reproduce_api(ctx, rej)


def api_sig(tr, pos):
    e = tr[pos]
    s = "C13 api %s" % e["ev"]
    if e.get("panic"):
        s += " panic"
    if e.get("timeout"):
        s += " did-not-return"
    if e.get("qpanic") or 2 in e.get("gw", []) or any(x[1] == 2 for x in e.get("npc", [])):
        s += " query-panic"
    if e["ev"] == "spawn":
        cnt = e.get("count", 0)
        s += " index=%s" % ("valid" if 0 <= e["i"] < cnt else "invalid")
    prev = [x["ev"] for x in tr[1:pos]]
    s += " after=%s" % (",".join(prev[-2:]) if prev else "new")
    return s


def reproduce_api(ctx, rejects, cap=25):
    rejects = limit_rejects(rejects)
    seen = {}
    for shard, idx in rejects:
        tr, pos = trace_of(shard, idx)
        seen.setdefault(api_sig(tr, pos), []).append((tr, pos))
    n = 0
    for sig, items in seen.items():
        if n >= cap:
            break
        n += 1
        tr, pos = items[0]
        hist = api_history(tr)
        d = ctx.sub("arepro%d" % n)
        src = os.path.join(d, "hist.json")
        json.dump(dict(cfg=tr[0], hist=hist), open(src, "w"))
        ctx.run_harness(["api-replay", "-in", src, "-out", os.path.join(d, "re")])
        re_file = os.path.join(d, "re.000.ndjson")
        r = ctx.tlc("BattleTrace", env=dict(VERIF_TRACE=re_file, VERIF_MODE="C13"))
        if not r["rejects"]:
            src = [(sh, i) for sh, i in rejects if trace_of(sh, i)[0] == tr]
            payload = rerun_in_context(ctx, src[0][0], src[0][1], "C13", "BattleTrace", n, cfg="BattleTrace.cfg") if (src and n <= 4) else None
            if payload is None and n > 4:
                continue
            if payload is None:
                raise ToolError("rejection (%s) reproduced neither alone nor when the whole generation was repeated" % sig)
            ctx.violation(sig + " [only after the preceding cases of the same process]",
                          "history %s: reproduced by repeating the deterministic generation (seed %s), not when executed alone - state is carried over between simulators" % (hist_str(hist), payload["seed"]), payload)
            continue
        re_tr = read_lines(re_file)
        bad = re_tr[r["rejects"][0] - 1]
        what = "history %s on M=%s: call #%d '%s' is not a behaviour of the specification; observed %s" % (
            hist_str(hist), tr[0]["M"], r["rejects"][0] - 1, bad["ev"], json.dumps(bad)[:500])
        ctx.violation(sig, what, dict(kind="api", cfg=tr[0], hist=hist, trace=re_tr, others_with_same_signature=len(items) - 1))


def api_history(tr):
    h = []
    for e in tr[1:]:
        if e["ev"] == "add":
            h.append(dict(kind="add", code=e["code"], start=e["start"]))
        elif e["ev"] == "spawn":
            h.append(dict(kind="spawn", i=e["i"], off=e["off"]))
        else:
            h.append(dict(kind=e["ev"]))
    return h


def hist_str(h):
    out = []
    for c in h:
        if c["kind"] == "add":
            out.append("Add(%s;start=%d)" % (" / ".join(ins_str(i) for i in c["code"]), c["start"]))
        elif c["kind"] == "spawn":
            out.append("Spawn(%d,%d)" % (c["i"], c["off"]))
        else:
            out.append({"cycle": "RunCycle", "run": "Run", "reset": "Reset"}[c["kind"]])
    return " ".join(out)


def replay_apicase(ctx, payload):
    d = ctx.sub("replay")
    src = os.path.join(d, "case.ndjson")
    open(src, "w").write(json.dumps(payload["case"]) + "\n")
    st = ctx.harness_json(["apicases", "-in", src, "-out", os.path.join(d, "o")])
    ctx.cov["evaluations"] = 1
    ctx.cov["traces_validated_against_impl"] = 1
    if st["mismatches"]:
        ctx.violation(payload["signature"], payload["what"], dict(kind="apicase", case=payload["case"]))


def replay_queue(ctx, payload):
    d = ctx.sub("replay")
    src = os.path.join(d, "case.ndjson")
    open(src, "w").write(json.dumps(payload["case"]) + "\n")
    st = ctx.harness_json(["queue", "-in", src, "-out", os.path.join(d, "o")])
    ctx.cov["evaluations"] = 1
    ctx.cov["traces_validated_against_impl"] = 1
    if st["mismatches"]:
        ctx.violation(payload["signature"], payload["what"], dict(kind="queue", case=payload["case"]))


def replay_api(ctx, payload):
    d = ctx.sub("replay")
    src = os.path.join(d, "hist.json")
    json.dump(dict(cfg=payload["cfg"], hist=payload["hist"]), open(src, "w"))
    ctx.run_harness(["api-replay", "-in", src, "-out", os.path.join(d, "re")])
    r = ctx.tlc("BattleTrace", env=dict(VERIF_TRACE=os.path.join(d, "re.000.ndjson"), VERIF_MODE="C13"))
    ctx.cov["traces_validated_against_impl"] = 1
    ctx.cov["evaluations"] = len(payload["hist"])
    if r["rejects"]:
        ctx.violation(payload["signature"], payload["what"], dict(kind="api", cfg=payload["cfg"], hist=payload["hist"]))


def check_C14(ctx):
    ctx.cov["rule"] = ("(i) alias histories: the caller overwrites its WarriorData (code cells, Start, everything) after AddWarrior, between spawns, between cycles and before the re-spawn after Reset; "
                       "the recorded trace carries the ORIGINAL data and is validated by TLC against MARS.tla, so any show-through is a rejected step; caller copies are compared after battles. "
                       "(ii) a deterministic job set (assemble text under configurations that share CoreSize/Length but differ in Processes/Distance; battles built from SHARED WarriorData, "
                       "also added to simulators of a smaller core) is run forwards, backwards and on 2/8/32 goroutines in separate processes built with -race; TLC checks that every job has the "
                       "same result in every run and validates every concurrent battle trace; any 'DATA RACE' report of the race detector is a violation. "
                       "distinct_nontrivial = caller mutations applied + jobs compared across runs.")
    ctx.cov["trusted_base"] = ["Go race detector (monitor for the data-race clause)", "python merge of per-run job results", "harness recorder", "TLC"]
    ctx.assumptions.append("data-race freedom is observed by the race detector on the executed interleavings, not proved")
    r = ctx.tlc("MC_API", cfg="MC_API.cfg", workers=NCPU, timeout=3000, heap="16g")
    ctx.notes["spec_model"] = "MC_API: AddW appends a copy; spec jobs share no variable (independence of interleaving is structural)"
    # (i) alias
    shards, st = gen_battles(ctx, "alias", ["-shards", 8 if ctx.quick else 96, "-n", 600 if ctx.quick else 100000], "alias")
    rej = ctx.validate_shards("BattleTrace", shards, mode="C02", heap="4g")
    ctx.sample(read_lines(shards[0])[:4])
    reproduce_generic(ctx, "C14 alias", rej)
    # (ii) jobs in separate processes
    d = ctx.sub("jobs")
    njobs = 240 if ctx.quick else 6000
    runs = [("fwd", 1, False), ("rev", 1, False), ("par", 2, True), ("par", 8, True), ("par", 32, True)]
    if not ctx.quick:
        runs += [("par", 16, True), ("par", 32, True), ("par", 5, True)]
    per_run = []
    races = 0
    for k, (order, th, race) in enumerate(runs):
        prefix = os.path.join(d, "r%d" % k)
        p = ctx.run_harness(["jobs", "-out", prefix, "-seed", ctx.seed, "-n", njobs, "-order", order, "-threads", th, "-reps", 2 if order == "par" else 1,
                             "-warriors", os.path.join(REPO, "warriors")], race=race, check=False, timeout=3000)
        if "DATA RACE" in p.stderr:
            races += 1
            ctx.violation("C14 data race (%s, %d threads)" % (order, th), "the race detector reported a data race while jobs ran concurrently",
                          dict(kind="race", order=order, threads=th, report=p.stderr[:6000], cmd="vharness(-race) jobs -seed %d -n %d -order %s -threads %d" % (ctx.seed, njobs, order, th)))
        elif p.returncode != 0:
            raise ToolError("jobs run failed: " + p.stderr[-2000:])
        per_run.append(prefix + ".000.ndjson")
    # merge: one jobcmp event per job id
    results = {}
    for f in per_run:
        if not os.path.exists(f):
            continue
        for e in read_lines(f):
            if e["ev"] == "job":
                results.setdefault(e["id"], []).append(e["res"])
    merged = os.path.join(d, "merged.ndjson")
    with open(merged, "w") as f:
        for i in sorted(results):
            f.write(json.dumps(dict(ev="jobcmp", id=i, results=results[i])) + "\n")
    rej2 = ctx.validate_shards("BattleTrace", [merged], mode="C14", heap="4g")
    rej3 = ctx.validate_shards("BattleTrace", [f for f in per_run if os.path.exists(f)], mode="C02", heap="4g")
    for shard, idx in rej2:
        e = read_line(shard, idx)
        ctx.violation("C14 job result differs between runs", "job %d gave different results in different orders/thread counts: %s" % (e["id"], json.dumps(e["results"])[:800]),
                      dict(kind="jobcmp", event=e, seed=ctx.seed, njobs=njobs))
    reproduce_generic(ctx, "C14 concurrent job", rej3)
    ctx.cov["traces_validated_against_impl"] = st["histories"] + len(results)
    ctx.cov["evaluations"] = st["histories"] + len(results) * len(runs)
    ctx.cov["distinct_nontrivial"] = st["mutations"] + len(results)
    ctx.notes.update(caller_mutations=st["mutations"], jobs=len(results), runs=[("%s x%d%s" % (o, t, " -race" if r_ else "")) for o, t, r_ in runs], data_race_reports=races)


def reproduce_generic(ctx, label, rejects, cap=10):
    rejects = limit_rejects(rejects)
    """violations whose replay is the recorded trace itself (alias / job traces are produced by multi-step drivers)."""
    seen = set()
    for shard, idx in rejects:
        tr, pos = trace_of(shard, idx)
        e = tr[pos] if pos < len(tr) else read_line(shard, idx)
        sig = "%s %s" % (label, e["ev"])
        if sig in seen or len(seen) >= cap:
            continue
        seen.add(sig)
        ctx.violation(sig, "%s: event '%s' is not a behaviour of the specification: %s" % (label, e["ev"], json.dumps(e)[:600]),
                      dict(kind="trace", mode="C02", trace=tr, failing_index=pos))


def replay_trace(ctx, payload):
    d = ctx.sub("replay")
    src = os.path.join(d, "in.ndjson")
    with open(src, "w") as f:
        for e in payload["trace"]:
            f.write(json.dumps(e) + "\n")
    r = ctx.tlc("BattleTrace", env=dict(VERIF_TRACE=src, VERIF_MODE=payload.get("mode", "C02")))
    ctx.cov["traces_validated_against_impl"] = 1
    ctx.cov["evaluations"] = len(payload["trace"])
    if r["rejects"]:
        ctx.violation(payload["signature"], payload["what"], dict(kind="trace", trace=payload["trace"]))
